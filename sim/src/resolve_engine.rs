//! simworld/resolve: drives the real `dns_resolver::resolve()` (local,
//! recursive and forwarding resolvers, `query_nameserver` with its UDP->TCP
//! fall-back and timeouts, the wire codec, the cache) inside one simulated
//! world, and records what the oracles need.

use std::cell::RefCell;
use std::collections::BTreeMap;
use std::net::SocketAddr;
use std::rc::Rc;
use std::time::Duration;

use dns_resolver::cache::SharedCache;
use dns_resolver::util::types::{ProtocolMode, ResolutionError, ResolvedRecord};
use dns_types::protocol::types::*;
use dns_types::zones::types::{Zone, Zones, SOA};
use serde::{Deserialize, Serialize};
use simseam::net::{DestAttempt, SockLife};
use simseam::world::{self, Decision, UpstreamQuery};

use crate::netactors::{Exchange, ForcedFault, ServerKnobs, UniverseNet};
use crate::runner::Exec;
use crate::universe::{Rec, Universe};
use crate::util::{dn, parse_data, question};

#[derive(Serialize, Deserialize, Clone, Debug)]
pub struct LocalZone {
    pub apex: String,
    /// `"SOA ..."` data when the zone is authoritative.
    pub soa: Option<String>,
    pub records: Vec<Rec>,
}

#[derive(Serialize, Deserialize, Clone, Debug)]
pub struct QuestionPlan {
    /// Virtual time that passes before the question is asked.
    pub gap_ms: u64,
    pub name: String,
    pub qtype: String,
    /// RD flag of the client (false = authoritative-only resolution).
    pub recursive: bool,
    /// Call `prune()` on the shared cache right before asking.
    #[serde(default)]
    pub prune_before: bool,
}

#[derive(Serialize, Deserialize, Clone, Debug)]
pub struct Knobs {
    /// `recursive` | `forwarding`
    pub mode: String,
    pub protocol_mode: String,
    pub upstream_port: u16,
    pub cache_size: usize,
    pub server: ServerKnobs,
    /// Probability of a non-benign decision per site.
    pub faults: BTreeMap<String, f64>,
    pub params: BTreeMap<String, u64>,
    /// Upstream content/transport fault kinds enabled for `upstream.fault`.
    pub upstream_fault_kinds: Vec<String>,
    #[serde(default)]
    pub forced_faults: Vec<ForcedFault>,
    /// Names owned by local authoritative zones, offered to the byzantine
    /// upstream as targets.
    #[serde(default)]
    pub local_targets: Vec<String>,
}

impl Default for Knobs {
    fn default() -> Self {
        Knobs {
            mode: "recursive".into(),
            protocol_mode: "only-v4".into(),
            upstream_port: 53,
            cache_size: 512,
            server: ServerKnobs::default(),
            faults: BTreeMap::new(),
            params: BTreeMap::new(),
            upstream_fault_kinds: Vec::new(),
            forced_faults: Vec::new(),
            local_targets: Vec::new(),
        }
    }
}

#[derive(Serialize, Deserialize, Clone, Debug)]
pub struct ResolvePlan {
    pub knobs: Knobs,
    pub universe: Universe,
    /// Add the universe's root hints as a non-authoritative root zone (merged
    /// with a root zone listed in `local`, if any).  Derived at run time so
    /// that shrinking the plan cannot break it.
    #[serde(default)]
    pub hints_auto: bool,
    pub local: Vec<LocalZone>,
    pub cache_preload: Vec<Rec>,
    pub questions: Vec<QuestionPlan>,
}

pub const FORWARDER: &str = "192.0.2.53:5353";

pub fn protocol_mode(s: &str) -> ProtocolMode {
    s.parse().expect("HARNESS: bad protocol mode")
}

/// The local configuration the run uses: `plan.local` plus derived hints.
pub fn effective_local(plan: &ResolvePlan) -> Vec<LocalZone> {
    let mut local = plan.local.clone();
    if plan.hints_auto {
        let hints = crate::universe::root_hints(&plan.universe);
        if let Some(root) = local.iter_mut().find(|z| z.apex == "." && z.soa.is_none()) {
            root.records.extend(hints);
        } else if !local.iter().any(|z| z.apex == ".") {
            local.push(LocalZone {
                apex: ".".into(),
                soa: None,
                records: hints,
            });
        }
    }
    local
}

pub fn build_zones(local: &[LocalZone]) -> Zones {
    let mut zones = Zones::new();
    for lz in local {
        let soa = lz.soa.as_ref().map(|s| match parse_data(s) {
            RecordTypeWithData::SOA {
                mname,
                rname,
                serial,
                refresh,
                retry,
                expire,
                minimum,
            } => SOA {
                mname,
                rname,
                serial,
                refresh,
                retry,
                expire,
                minimum,
            },
            _ => panic!("HARNESS: local zone soa is not a SOA"),
        });
        let mut zone = Zone::new(dn(&lz.apex), soa);
        for r in &lz.records {
            if r.wild {
                zone.insert_wildcard(&dn(&r.owner), parse_data(&r.data), r.ttl);
            } else {
                zone.insert(&dn(&r.owner), parse_data(&r.data), r.ttl);
            }
        }
        zones.insert(zone);
    }
    zones
}

#[derive(Clone, Debug)]
pub struct CachedRec {
    pub rr: ResourceRecord,
    /// Remaining lifetime in ns at snapshot time.
    pub remaining_ns: u64,
}

#[derive(Clone, Debug)]
pub struct QObs {
    pub index: usize,
    pub ctx: String,
    pub question: Question,
    pub recursive: bool,
    pub started_ms: u64,
    pub elapsed_ms: u64,
    /// Length of the clock stalls injected while this question was resolved.
    pub stall_ms: u64,
    pub result: Result<ResolvedRecord, ResolutionError>,
    /// Index ranges into the run-wide logs covering this question.
    pub exchanges: std::ops::Range<usize>,
    pub dests: std::ops::Range<usize>,
    pub trace: std::ops::Range<usize>,
    pub lives: std::ops::Range<usize>,
    /// Cache contents (unexpired and expired-unpruned) before and after.
    pub cache_before: Vec<CachedRec>,
    pub cache_after: Vec<CachedRec>,
}

pub struct Observations {
    pub questions: Vec<QObs>,
    pub exchanges: Vec<Exchange>,
    pub dests: Vec<DestAttempt>,
    pub trace: Vec<UpstreamQuery>,
    pub lives: Vec<SockLife>,
    pub stats: BTreeMap<String, u64>,
    pub taken: Vec<Decision>,
    pub log_hash: u64,
    pub log_events: u64,
    pub log_text: Option<Vec<String>>,
    pub sim_ms: u64,
    pub zones: Zones,
    /// Cache contents at each upstream-query trace point (parallel to `trace`).
    pub trace_cache: Vec<Vec<CachedRec>>,
    pub address_lookups: Vec<simseam::world::AddressLookup>,
    /// Datagrams as the code under test received them (after corruption).
    pub recv_log: Vec<(String, Vec<u8>)>,
}

pub fn snapshot_cache(cache: &SharedCache) -> Vec<CachedRec> {
    let now = simseam::clock::code_now_nanos();
    let snap = cache.verif_snapshot();
    let mut out = Vec::new();
    for (name, _, _, _, records) in snap.partitions {
        for (data, expiry) in records {
            let remaining_ns = expiry.since_start_nanos().saturating_sub(now);
            out.push(CachedRec {
                rr: ResourceRecord {
                    name: name.clone(),
                    rtype_with_data: data,
                    rclass: RecordClass::IN,
                    #[allow(clippy::cast_possible_truncation)]
                    ttl: (remaining_ns / 1_000_000_000).min(u64::from(u32::MAX)) as u32,
                },
                remaining_ns,
            });
        }
    }
    out.sort_by(|a, b| a.rr.cmp(&b.rr));
    out
}

pub fn make_runtime(seed: u64) -> tokio::runtime::Runtime {
    let mut seed_bytes = [0u8; 8];
    seed_bytes.copy_from_slice(&seed.to_le_bytes());
    tokio::runtime::Builder::new_current_thread()
        .enable_time()
        .start_paused(true)
        .rng_seed(tokio::runtime::RngSeed::from_bytes(&seed_bytes))
        .build()
        .expect("HARNESS: tokio runtime")
}

pub fn install_world(exec: &Exec, faults: &BTreeMap<String, f64>, params: &BTreeMap<String, u64>, want_log: bool) {
    let mut w = exec.world();
    for (k, v) in faults {
        w.profile.set_p(k, *v);
    }
    for (k, v) in params {
        w.profile.set_param(k, *v);
    }
    w.record_log(want_log);
    world::install(w);
}

/// Run a plan and collect the observations.
pub fn run(plan: &ResolvePlan, exec: &Exec, want_log: bool) -> Observations {
    let rt = make_runtime(exec.seed());
    let zones = build_zones(&effective_local(plan));
    let obs = rt.block_on(async {
        simseam::clock::use_tokio();
        install_world(exec, &plan.knobs.faults, &plan.knobs.params, want_log);
        simseam::clock::enable_stalls(plan.knobs.faults.get("clock.stall").is_some_and(|p| *p > 0.0));
        let forwarder: Option<SocketAddr> = if plan.knobs.mode == "forwarding" {
            Some(FORWARDER.parse().unwrap())
        } else {
            None
        };
        let mut net = UniverseNet::new(
            plan.universe.clone(),
            plan.knobs.server.clone(),
            plan.knobs.upstream_port,
        );
        net.forwarder = forwarder;
        net.fault_kinds.clone_from(&plan.knobs.upstream_fault_kinds);
        net.forced.clone_from(&plan.knobs.forced_faults);
        net.local_targets.clone_from(&plan.knobs.local_targets);
        let net = Rc::new(RefCell::new(net));
        world::with(|w| w.net.set_internet(net.clone()));

        let cache = SharedCache::with_desired_size(plan.knobs.cache_size.max(1));
        let trace_cache: Rc<RefCell<Vec<Vec<CachedRec>>>> = Rc::new(RefCell::new(Vec::new()));
        {
            let tc = trace_cache.clone();
            let c2 = cache.clone();
            world::with(|w| {
                w.on_upstream_query = Some(Box::new(move |_| {
                    tc.borrow_mut().push(snapshot_cache(&c2));
                }));
            });
        }
        for r in &plan.cache_preload {
            cache.insert(&r.to_rr());
        }
        let pmode = protocol_mode(&plan.knobs.protocol_mode);

        let mut qobs = Vec::new();
        for (i, qp) in plan.questions.iter().enumerate() {
            if qp.gap_ms > 0 {
                tokio::time::sleep(Duration::from_millis(qp.gap_ms)).await;
            }
            let ctx = format!("q{i}");
            world::with(|w| w.set_ctx(&ctx));
            if qp.prune_before {
                let r = cache.prune();
                world::with(|w| {
                    w.log_event("cache.prune", &format!("{r:?}"));
                    if r.2 > 0 {
                        w.bump("probe.prune_expired_between_questions");
                    }
                    if r.3 > 0 {
                        w.bump("probe.prune_evicted_between_questions");
                    }
                });
            }
            let q = question(&qp.name, &qp.qtype);
            let cache_before = snapshot_cache(&cache);
            let (e0, d0, t0, l0) = (
                net.borrow().exchanges.len(),
                world::with(|w| w.net.dests.len()),
                world::with(|w| w.trace.len()),
                world::with(|w| w.net.lives.len()),
            );
            let started_ms = simseam::clock::elapsed_ms();
            let skew0 = simseam::clock::skew_nanos();
            world::with(|w| w.log_event("resolve.start", &format!("{ctx} {q} rd={}", qp.recursive)));
            let (_metrics, result) = dns_resolver::resolve(
                qp.recursive,
                pmode,
                plan.knobs.upstream_port,
                forwarder,
                &zones,
                &cache,
                &q,
            )
            .await;
            let elapsed_ms = simseam::clock::elapsed_ms() - started_ms;
            world::with(|w| {
                w.log_event(
                    "resolve.done",
                    &format!("{ctx} ok={} elapsed={elapsed_ms}", result.is_ok()),
                );
            });
            let cache_after = snapshot_cache(&cache);
            qobs.push(QObs {
                index: i,
                ctx,
                question: q,
                recursive: qp.recursive,
                started_ms,
                elapsed_ms,
                stall_ms: (simseam::clock::skew_nanos() - skew0).div_ceil(1_000_000),
                result,
                exchanges: e0..net.borrow().exchanges.len(),
                dests: d0..world::with(|w| w.net.dests.len()),
                trace: t0..world::with(|w| w.trace.len()),
                lives: l0..world::with(|w| w.net.lives.len()),
                cache_before,
                cache_after,
            });
        }
        let sim_ms = simseam::clock::elapsed_ms();
        world::with(|w| {
            w.net.clear_internet();
            w.on_upstream_query = None;
        });
        let w = world::uninstall().expect("HARNESS: world vanished");
        simseam::clock::unset();
        let exchanges = std::mem::take(&mut net.borrow_mut().exchanges);
        Observations {
            questions: qobs,
            exchanges,
            dests: w.net.dests.clone(),
            trace: w.trace.clone(),
            lives: w.net.lives.clone(),
            stats: w.stats.clone(),
            taken: w.taken.clone(),
            log_hash: w.log_hash(),
            log_events: w.log_count(),
            log_text: w.log_text.clone(),
            sim_ms,
            zones: Zones::new(),
            trace_cache: trace_cache.take(),
            address_lookups: w.address_lookups.clone(),
            recv_log: w.net.recv_log.clone(),
        }
    });
    drop(rt);
    Observations { zones, ..obs }
}

/// Shape signature of a run for the distinctness count: the sequence of
/// (exchange destination, fault, outcome) plus per-question result class.
pub fn shape_of(obs: &Observations) -> u64 {
    let mut h = 0x1234u64;
    for e in &obs.exchanges {
        h = simseam::hash_bytes(h, format!("{} {} {} {}", e.proto, e.to, e.fault, e.reply_len).as_bytes());
    }
    for q in &obs.questions {
        let class = match &q.result {
            Ok(ResolvedRecord::Authoritative { rrs, .. }) => format!("A{}", rrs.len()),
            Ok(ResolvedRecord::AuthoritativeNameError { .. }) => "NX".to_string(),
            Ok(ResolvedRecord::NonAuthoritative { rrs, soa_rr }) => {
                format!("N{}{}", rrs.len(), soa_rr.is_some())
            }
            Ok(ResolvedRecord::Referral { ns_rrs }) => format!("R{}", ns_rrs.len()),
            Err(e) => format!("E{e}"),
        };
        h = simseam::hash_bytes(h, format!("{} {class}", q.question).as_bytes());
    }
    h
}
