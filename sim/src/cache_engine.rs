//! simcache: operation-sequence simulator over `Cache` / `SharedCache` under
//! the virtual clock (hook H3), compared step by step with a reference map.
//! Decides C05 (lookup soundness/completeness under passing time) and C15
//! (prune exactness, bounds, reported numbers, LRU order, counts).

use std::collections::{BTreeMap, BTreeSet};
use std::time::Duration;

use dns_resolver::cache::{Cache, SharedCache, VerifSnapshot};
use dns_types::protocol::types::*;
use serde::{Deserialize, Serialize};
use serde_json::{json, Value};
use simseam::{clock, hash_bytes, mix64};

use crate::runner::{Exec, Property, RunResult, Tier, Violation};
use crate::util::{dn, parse_data, show_rr, Rng};

#[derive(Serialize, Deserialize, Clone, Debug)]
#[serde(tag = "op")]
pub enum Op {
    Insert { name: u8, rtype: u8, val: u8, ttl: u32 },
    /// One `insert_all` call: (name, type, value, ttl) per record.
    InsertAll { items: Vec<(u8, u8, u8, u32)> },
    Get { name: u8, q: u8 },
    GetUnchecked { name: u8, q: u8 },
    Prune,
    Advance { ms: u64 },
}

#[derive(Serialize, Deserialize, Clone, Debug)]
pub struct CachePlan {
    pub desired_size: usize,
    /// Drive `SharedCache` (true) or `Cache` directly (false).
    pub shared: bool,
    pub ops: Vec<Op>,
}

pub const N_TYPES: u8 = 5;
const TTLS: [u32; 9] = [0, 1, 1, 2, 3, 5, 60, 300, u32::MAX];

pub fn name_of(i: u8) -> DomainName {
    dn(&format!("n{i}.cache.test."))
}

pub fn data_of(name: u8, rtype: u8, val: u8) -> RecordTypeWithData {
    match rtype {
        0 => parse_data(&format!("A 10.{name}.0.{val}")),
        1 => parse_data(&format!("AAAA fd00::{name}:{val}")),
        2 => parse_data(&format!("MX {val} mx{val}.n{name}.cache.test.")),
        3 => parse_data(&format!("TXT v{val}")),
        _ => parse_data(&format!("NS ns{val}.n{name}.cache.test.")),
    }
}

pub fn qtype_of(q: u8) -> QueryType {
    match q {
        0 => QueryType::Record(RecordType::A),
        1 => QueryType::Record(RecordType::AAAA),
        2 => QueryType::Record(RecordType::MX),
        3 => QueryType::Record(RecordType::TXT),
        4 => QueryType::Record(RecordType::NS),
        5 => QueryType::Wildcard,
        6 => QueryType::AXFR,
        _ => QueryType::MAILB,
    }
}

fn rtype_index(d: &RecordTypeWithData) -> Option<u8> {
    match d.rtype() {
        RecordType::A => Some(0),
        RecordType::AAAA => Some(1),
        RecordType::MX => Some(2),
        RecordType::TXT => Some(3),
        RecordType::NS => Some(4),
        _ => None,
    }
}

pub fn gen_plan(seed: u64, tier: Tier) -> CachePlan {
    let mut r = Rng::new(seed);
    let names = r.range(2, 5) as u8;
    let vals = r.range(2, 3) as u8;
    let types = r.range(2, u64::from(N_TYPES)) as u8;
    let n_ops = match tier {
        Tier::Quick => r.range(6, 60),
        Tier::Thorough => r.range(6, 200),
    };
    let desired_size = if r.chance(0.5) {
        r.range(1, 8) as usize
    } else {
        r.range(1, 40) as usize
    };
    // workload mix (swarm style): per-run weights
    let w_insert = r.range(2, 8);
    let w_get = r.range(1, 6);
    let w_unchecked = r.range(0, 2);
    let w_prune = r.range(1, 4);
    let w_adv = r.range(1, 6);
    let total = w_insert + w_get + w_unchecked + w_prune + w_adv;
    let short_ttls = r.chance(0.7);
    let mut ops = Vec::new();
    let mut last_ttl: u32 = 1;
    for _ in 0..n_ops {
        let x = r.below(total);
        if x < w_insert {
            let ttl = if short_ttls && r.chance(0.8) {
                *r.pick(&TTLS[..6])
            } else {
                *r.pick(&TTLS)
            };
            if ttl > 0 && ttl < 1000 {
                last_ttl = ttl;
            }
            if r.chance(0.15) {
                // a batch, as the resolver caches a reply: mixed TTLs, TTL 0 among them
                let n = r.range(2, 4);
                let mut items = vec![(
                    r.below(u64::from(names)) as u8,
                    r.below(u64::from(types)) as u8,
                    r.below(u64::from(vals)) as u8,
                    ttl,
                )];
                for _ in 1..n {
                    items.push((
                        r.below(u64::from(names)) as u8,
                        r.below(u64::from(types)) as u8,
                        r.below(u64::from(vals)) as u8,
                        *r.pick(&[0u32, 0, 1, 2, 5, 60]),
                    ));
                }
                ops.push(Op::InsertAll { items });
            } else {
                ops.push(Op::Insert {
                    name: r.below(u64::from(names)) as u8,
                    rtype: r.below(u64::from(types)) as u8,
                    val: r.below(u64::from(vals)) as u8,
                    ttl,
                });
            }
        } else if x < w_insert + w_get {
            let q = if r.chance(0.25) {
                5
            } else if r.chance(0.05) {
                6 + r.below(2) as u8
            } else {
                r.below(u64::from(types)) as u8
            };
            ops.push(Op::Get {
                name: r.below(u64::from(names)) as u8,
                q,
            });
        } else if x < w_insert + w_get + w_unchecked {
            let q = if r.chance(0.3) { 5 } else { r.below(u64::from(types)) as u8 };
            ops.push(Op::GetUnchecked {
                name: r.below(u64::from(names)) as u8,
                q,
            });
        } else if x < w_insert + w_get + w_unchecked + w_prune {
            ops.push(Op::Prune);
        } else {
            let t = u64::from(last_ttl) * 1000;
            let ms = match r.below(9) {
                0 => r.range(1, 999),
                1 => 1000 * r.range(1, 5),
                2 => t.saturating_sub(1).max(1),
                3 => t,
                4 => t + 1,
                5 => r.range(1, 3000),
                6 => 500,
                7 => 3_600_000 * r.range(1, 30),
                _ => r.range(1, 100),
            };
            ops.push(Op::Advance { ms });
        }
    }
    CachePlan {
        desired_size,
        shared: r.chance(0.7),
        ops,
    }
}

enum Target {
    Shared(SharedCache),
    Direct(Box<Cache>),
}

impl Target {
    fn insert(&mut self, rr: &ResourceRecord) {
        match self {
            Target::Shared(c) => c.insert(rr),
            Target::Direct(c) => c.insert(rr),
        }
    }
    fn insert_all(&mut self, rrs: &[ResourceRecord]) {
        match self {
            Target::Shared(c) => c.insert_all(rrs),
            Target::Direct(c) => {
                for rr in rrs {
                    c.insert(rr);
                }
            }
        }
    }
    fn get(&mut self, name: &DomainName, q: QueryType) -> Vec<ResourceRecord> {
        match self {
            Target::Shared(c) => c.get(name, q),
            Target::Direct(c) => c.get(name, q),
        }
    }
    fn get_unchecked(&mut self, name: &DomainName, q: QueryType) -> Vec<ResourceRecord> {
        match self {
            Target::Shared(c) => c.get_without_checking_expiration(name, q),
            Target::Direct(c) => c.get_without_checking_expiration(name, q),
        }
    }
    fn prune(&mut self) -> (bool, usize, usize, usize) {
        match self {
            Target::Shared(c) => c.prune(),
            Target::Direct(c) => c.prune(),
        }
    }
    fn snapshot(&self) -> VerifSnapshot {
        match self {
            Target::Shared(c) => c.verif_snapshot(),
            Target::Direct(c) => c.verif_snapshot(),
        }
    }
}

type Key = (u8, u8, u8);

#[derive(Default)]
pub struct Model {
    /// (name, type, value) -> expiry (ns of virtual time)
    pub entries: BTreeMap<Key, u64>,
    /// last insert, or lookup that returned a live record
    pub lo: BTreeMap<u8, u64>,
    /// last insert or lookup of any kind
    pub hi: BTreeMap<u8, u64>,
}

const SEC: u64 = 1_000_000_000;

pub fn key_of(rr_name: &DomainName, data: &RecordTypeWithData, keymap: &BTreeMap<(String, String), Key>) -> Option<Key> {
    keymap
        .get(&(rr_name.to_dotted_string(), crate::util::show_data(data)))
        .copied()
}

pub fn build_keymap() -> BTreeMap<(String, String), Key> {
    let mut m = BTreeMap::new();
    for n in 0..8u8 {
        for t in 0..N_TYPES {
            for v in 0..4u8 {
                m.insert(
                    (
                        name_of(n).to_dotted_string(),
                        crate::util::show_data(&data_of(n, t, v)),
                    ),
                    (n, t, v),
                );
            }
        }
    }
    m
}

fn snapshot_entries(
    s: &VerifSnapshot,
    keymap: &BTreeMap<(String, String), Key>,
) -> Result<BTreeMap<Key, u64>, String> {
    let mut out = BTreeMap::new();
    for (name, _, _, _, records) in &s.partitions {
        for (data, expiry) in records {
            let Some(k) = key_of(name, data, keymap) else {
                return Err(format!("cache holds a record nobody inserted: {name} {data:?}"));
            };
            if out.insert(k, expiry.since_start_nanos()).is_some() {
                return Err(format!("cache holds {name} {data:?} twice"));
            }
        }
    }
    Ok(out)
}

/// Count check (C15): record count == number of distinct entries == model.
fn structural(s: &VerifSnapshot, model: &Model, vs: &mut Vec<Violation>, step: usize) {
    let part_sum: usize = s.partitions.iter().map(|p| p.3).sum();
    let rec_sum: usize = s.partitions.iter().map(|p| p.4.len()).sum();
    if s.current_size != rec_sum || part_sum != rec_sum || rec_sum != model.entries.len() {
        vs.push(
            Violation::new("c15.count_mismatch")
                .fact("count_vs_held", s.current_size != rec_sum)
                .detail(json!({
                    "step": step,
                    "current_size": s.current_size,
                    "sum_partition_sizes": part_sum,
                    "distinct_entries_held": rec_sum,
                    "model_entries": model.entries.len(),
                })),
        );
    }
}

fn state_hash(model: &Model, now: u64) -> u64 {
    let mut h = 0x5151u64;
    for (k, e) in &model.entries {
        let rem_ms = (e.saturating_sub(now)) / 1_000_000;
        h = mix64(h ^ hash_bytes(u64::from(k.0) << 16 | u64::from(k.1) << 8 | u64::from(k.2), &rem_ms.to_le_bytes()));
    }
    h
}

pub fn execute(plan: &CachePlan) -> RunResult {
    clock::use_manual();
    let keymap = build_keymap();
    let mut target = if plan.shared {
        Target::Shared(SharedCache::with_desired_size(plan.desired_size))
    } else {
        Target::Direct(Box::new(Cache::with_desired_size(plan.desired_size)))
    };
    let mut model = Model::default();
    let mut vs: Vec<Violation> = Vec::new();
    let mut shape = 0x77u64;
    let mut stats: BTreeMap<String, u64> = BTreeMap::new();
    let mut states: Vec<u64> = Vec::new();
    let mut bump = |k: &str| *stats.entry(k.to_string()).or_insert(0) += 1;
    let mut nontrivial_c05 = false;
    let mut nontrivial_c15 = false;

    for (step, op) in plan.ops.iter().enumerate() {
        let now = clock::elapsed_nanos();
        match op {
            Op::Advance { ms } => {
                clock::advance(Duration::from_millis(*ms));
                shape = mix64(shape ^ 1);
                continue;
            }
            Op::Insert { name, rtype, val, ttl } => {
                let rr = ResourceRecord {
                    name: name_of(*name),
                    rtype_with_data: data_of(*name, *rtype, *val),
                    rclass: RecordClass::IN,
                    ttl: *ttl,
                };
                let skip = plan.shared && *ttl == 0;
                let before = if skip { Some(target.snapshot()) } else { None };
                target.insert(&rr);
                if let Some(b) = before {
                    let a = target.snapshot();
                    bump("probe.ttl0_insert_shared");
                    let eb = snapshot_entries(&b, &keymap);
                    let ea = snapshot_entries(&a, &keymap);
                    // nothing of it is stored: no new entry, no entry refreshed
                    let key = (*name, *rtype, *val);
                    let stored = match (&eb, &ea) {
                        (Ok(eb), Ok(ea)) => ea.get(&key).is_some_and(|e| eb.get(&key) != Some(e)),
                        _ => true,
                    };
                    if stored {
                        vs.push(Violation::new("c05.ttl0_stored").detail(json!({
                            "step": step, "record": show_rr(&rr)
                        })));
                    }
                } else {
                    let key = (*name, *rtype, *val);
                    if model.entries.contains_key(&key) {
                        bump("probe.reinsert");
                    }
                    model
                        .entries
                        .insert(key, now.saturating_add(u64::from(*ttl).saturating_mul(SEC)));
                    model.lo.insert(*name, now);
                    model.hi.insert(*name, now);
                }
                shape = mix64(shape ^ 2 ^ (u64::from(*ttl == 0) << 8));
            }
            Op::InsertAll { items } => {
                let rrs: Vec<ResourceRecord> = items
                    .iter()
                    .map(|(name, rtype, val, ttl)| ResourceRecord {
                        name: name_of(*name),
                        rtype_with_data: data_of(*name, *rtype, *val),
                        rclass: RecordClass::IN,
                        ttl: *ttl,
                    })
                    .collect();
                let before = target.snapshot();
                target.insert_all(&rrs);
                let after = target.snapshot();
                bump("probe.insert_all_batch");
                if plan.shared && items.iter().any(|i| i.3 == 0) && items.iter().any(|i| i.3 > 0) {
                    bump("probe.insert_all_batch_mixing_ttl0_and_live");
                }
                for (name, rtype, val, ttl) in items {
                    if plan.shared && *ttl == 0 {
                        continue;
                    }
                    let key = (*name, *rtype, *val);
                    if model.entries.contains_key(&key) {
                        bump("probe.reinsert");
                    }
                    model
                        .entries
                        .insert(key, now.saturating_add(u64::from(*ttl).saturating_mul(SEC)));
                    model.lo.insert(*name, now);
                    model.hi.insert(*name, now);
                }
                // the shared cache stores nothing of a TTL-0 record, batch or not
                if plan.shared {
                    if let (Ok(eb), Ok(ea)) = (snapshot_entries(&before, &keymap), snapshot_entries(&after, &keymap)) {
                        // a TTL-0 record of the batch neither creates nor refreshes an
                        // entry (unless the same batch also carries it with a TTL)
                        let stored: Vec<String> = items
                            .iter()
                            .filter(|i| i.3 == 0)
                            .map(|i| (i.0, i.1, i.2))
                            .filter(|k| !items.iter().any(|j| j.3 > 0 && (j.0, j.1, j.2) == *k))
                            .filter(|k| ea.get(k).is_some_and(|e| eb.get(k) != Some(e)))
                            .map(|k| format!("{k:?}"))
                            .collect();
                        if !stored.is_empty() {
                            vs.push(Violation::new("c05.ttl0_stored").fact("in_a_batch", true).detail(json!({
                                "step": step,
                                "batch": rrs.iter().map(show_rr).collect::<Vec<_>>(),
                                "stored": stored,
                            })));
                        }
                    }
                }
                shape = mix64(shape ^ 7 ^ ((items.len() as u64) << 8));
            }
            Op::Get { name, q } | Op::GetUnchecked { name, q } => {
                let unchecked = matches!(op, Op::GetUnchecked { .. });
                let qn = name_of(*name);
                let qt = qtype_of(*q);
                let got = if unchecked {
                    target.get_unchecked(&qn, qt)
                } else {
                    target.get(&qn, qt)
                };
                let mut seen: BTreeSet<Key> = BTreeSet::new();
                let mut any_live = false;
                let mut partial_ttl = false;
                for r in &got {
                    let Some(key) = key_of(&r.name, &r.rtype_with_data, &keymap) else {
                        vs.push(Violation::new("c05.unknown_record").detail(json!({
                            "step": step, "record": show_rr(r)
                        })));
                        continue;
                    };
                    if r.name != qn || r.rclass != RecordClass::IN || key.0 != *name {
                        vs.push(Violation::new("c05.wrong_owner_or_class").detail(json!({
                            "step": step, "record": show_rr(r)
                        })));
                    }
                    if !(r.rtype_with_data.matches(qt)) {
                        vs.push(Violation::new("c05.wrong_type").detail(json!({
                            "step": step, "record": show_rr(r)
                        })));
                    }
                    if !seen.insert(key) {
                        vs.push(Violation::new("c05.duplicate_in_answer").detail(json!({
                            "step": step, "record": show_rr(r)
                        })));
                    }
                    match model.entries.get(&key) {
                        None => vs.push(Violation::new("c05.returned_absent_record").detail(json!({
                            "step": step, "record": show_rr(r)
                        }))),
                        Some(expiry) => {
                            let remaining = expiry.saturating_sub(now);
                            let reported = u64::from(r.ttl).saturating_mul(SEC);
                            if !unchecked && (remaining == 0 || r.ttl == 0) {
                                vs.push(
                                    Violation::new("c05.served_expired")
                                        .fact("ttl_zero", r.ttl == 0)
                                        .detail(json!({
                                            "step": step, "record": show_rr(r),
                                            "remaining_ns": remaining
                                        })),
                                );
                            }
                            if reported > remaining {
                                vs.push(Violation::new("c05.ttl_exceeds_remaining").detail(json!({
                                    "step": step, "record": show_rr(r),
                                    "remaining_ns": remaining, "unchecked": unchecked
                                })));
                            }
                            if r.ttl > 0 {
                                any_live = true;
                            }
                            if remaining > 0 && remaining % SEC != 0 {
                                partial_ttl = true;
                            }
                        }
                    }
                }
                // completeness: every live (>= 1 s left) matching entry is returned
                if matches!(qt, QueryType::Wildcard | QueryType::Record(_)) {
                    for (key, expiry) in &model.entries {
                        if key.0 != *name {
                            continue;
                        }
                        if *q < N_TYPES && key.1 != *q {
                            continue;
                        }
                        let remaining = expiry.saturating_sub(now);
                        if remaining >= SEC && !seen.contains(key) {
                            vs.push(Violation::new("c05.missing_live_record").detail(json!({
                                "step": step, "entry": format!("{key:?}"),
                                "remaining_ns": remaining, "query": format!("{qn} {qt:?}")
                            })));
                        }
                        if remaining == 0 {
                            bump("probe.lookup_after_expiry");
                            nontrivial_c05 = true;
                        }
                    }
                }
                if partial_ttl {
                    nontrivial_c05 = true;
                    bump("probe.lookup_with_partly_elapsed_ttl");
                }
                if model.entries.keys().any(|k| k.0 == *name) {
                    model.hi.insert(*name, now);
                    if any_live {
                        model.lo.insert(*name, now);
                    }
                }
                shape = mix64(shape ^ 3 ^ ((got.len() as u64) << 8) ^ (u64::from(unchecked) << 20));
            }
            Op::Prune => {
                let before = model.entries.clone();
                let (_overflowed, size, expired, evicted) = target.prune();
                let snap = target.snapshot();
                let after = match snapshot_entries(&snap, &keymap) {
                    Ok(a) => a,
                    Err(e) => {
                        vs.push(Violation::new("c15.foreign_entry").detail(json!({"step": step, "what": e})));
                        BTreeMap::new()
                    }
                };
                check_prune(
                    plan.desired_size,
                    now,
                    &before,
                    &after,
                    &model,
                    (size, expired, evicted),
                    step,
                    &mut vs,
                    &mut |k| bump(k),
                );
                if expired > 0 || evicted > 0 {
                    nontrivial_c15 = true;
                }
                // follow what the cache observably did
                model.entries = after;
                let live_names: BTreeSet<u8> = model.entries.keys().map(|k| k.0).collect();
                model.lo.retain(|n, _| live_names.contains(n));
                model.hi.retain(|n, _| live_names.contains(n));
                states.push(state_hash(&model, now));
                shape = mix64(shape ^ 4 ^ ((expired as u64) << 8) ^ ((evicted as u64) << 24));
            }
        }
        let snap_now = target.snapshot();
        // when an expired record physically vanishes is not specified: it may go
        // before any prune (say, when its name is next written to).  The model
        // follows; a record with a second or more to live may not go that way.
        if let Ok(held) = snapshot_entries(&snap_now, &keymap) {
            let t = clock::elapsed_nanos();
            let gone: Vec<Key> = model.entries.keys().filter(|k| !held.contains_key(*k)).copied().collect();
            for k in gone {
                if model.entries[&k] < t.saturating_add(SEC) {
                    model.entries.remove(&k);
                    bump("probe.expired_record_gone_before_a_prune");
                }
            }
        }
        structural(&snap_now, &model, &mut vs, step);
        if !vs.is_empty() {
            break;
        }
    }
    states.push(state_hash(&model, clock::elapsed_nanos()));
    let sim_ms = clock::elapsed_ms();
    // seam liveness: the cache must have read the virtual clock
    let clock_reads = clock::reads();
    clock::unset();
    if nontrivial_c05 {
        bump("nontrivial.c05");
    }
    if nontrivial_c15 {
        bump("nontrivial.c15");
    }
    drop(bump);
    *stats.entry("seam.clock_reads".to_string()).or_insert(0) += clock_reads;
    RunResult {
        violations: vs,
        nontrivial: nontrivial_c05 || nontrivial_c15,
        shape,
        log_hash: shape,
        log_events: plan.ops.len() as u64,
        sim_ms,
        stats,
        taken: Vec::new(),
        states,
        sample: Some(json!({
            "desired_size": plan.desired_size,
            "shared": plan.shared,
            "ops": plan.ops.iter().take(12).collect::<Vec<_>>(),
            "n_ops": plan.ops.len(),
        })),
        log_text: None,
    }
}

/// Judge one prune against what it observably did (C15).
#[allow(clippy::too_many_arguments)]
pub fn check_prune(
    desired: usize,
    now: u64,
    before: &BTreeMap<Key, u64>,
    after: &BTreeMap<Key, u64>,
    model: &Model,
    reported: (usize, usize, usize),
    step: usize,
    vs: &mut Vec<Violation>,
    bump: &mut dyn FnMut(&str),
) {
    let (size, expired, evicted) = reported;
    // nothing invented, nothing changed
    for (k, e) in after {
        match before.get(k) {
            Some(b) if b == e => {}
            _ => vs.push(Violation::new("c15.prune_changed_entry").detail(json!({
                "step": step, "entry": format!("{k:?}")
            }))),
        }
    }
    // exact: no expired record left behind
    let left_expired: Vec<&Key> = after.iter().filter(|(_, e)| **e <= now).map(|(k, _)| k).collect();
    if !left_expired.is_empty() {
        let name = left_expired[0].0;
        let others_in_name = before.keys().filter(|k| k.0 == name).count() > 1;
        vs.push(
            Violation::new("c15.prune_leaves_expired")
                .fact("name_holds_other_entries", others_in_name)
                .detail(json!({
                    "step": step,
                    "left_behind": left_expired.iter().map(|k| format!("{k:?}")).collect::<Vec<_>>(),
                    "now_ns": now,
                })),
        );
    }
    // bounded
    if after.len() > desired {
        vs.push(Violation::new("c15.prune_over_size").detail(json!({
            "step": step, "size": after.len(), "desired": desired
        })));
    }
    // classify what went away
    let removed: Vec<(&Key, &u64)> = before.iter().filter(|(k, _)| !after.contains_key(*k)).collect();
    let truly_expired = removed.iter().filter(|(_, e)| **e <= now).count();
    let live_removed: Vec<&Key> = removed.iter().filter(|(_, e)| **e > now).map(|(k, _)| *k).collect();
    let mut evicted_names: BTreeSet<u8> = BTreeSet::new();
    let mut tolerated = 0usize;
    let mut evicted_count = 0usize;
    let names_removed: BTreeSet<u8> = live_removed.iter().map(|k| k.0).collect();
    for n in &names_removed {
        let survivors = after.keys().filter(|k| k.0 == *n).count();
        let mine: Vec<&&Key> = live_removed.iter().filter(|k| k.0 == *n).collect();
        if survivors == 0 {
            evicted_names.insert(*n);
            evicted_count += mine.len();
        } else if mine.iter().all(|k| before[**k] - now < SEC) {
            // entries with under a second left may be treated as expired
            tolerated += mine.len();
        } else {
            vs.push(Violation::new("c15.partial_eviction").detail(json!({
                "step": step, "name": n,
                "removed_live": mine.iter().map(|k| format!("{k:?}")).collect::<Vec<_>>(),
                "survivors": survivors,
            })));
        }
    }
    if !evicted_names.is_empty() {
        bump("probe.lru_evicted");
    }
    if truly_expired > 0 {
        bump("probe.expired_pruned");
    }
    // reported numbers
    if size != after.len() {
        vs.push(Violation::new("c15.reported_size_wrong").detail(json!({
            "step": step, "reported": size, "held": after.len()
        })));
    }
    if expired != truly_expired + tolerated {
        vs.push(Violation::new("c15.reported_expired_wrong").detail(json!({
            "step": step, "reported": expired, "removed_expired": truly_expired, "tolerated": tolerated
        })));
    }
    if evicted != evicted_count {
        vs.push(Violation::new("c15.reported_evicted_wrong").detail(json!({
            "step": step, "reported": evicted, "evicted_live_entries": evicted_count
        })));
    }
    // only while over size
    let live_before = before.values().filter(|e| **e > now).count();
    // C05's side of the same coin: the only thing that may take a record with a
    // second or more to live out of the cache is an eviction, and there is none
    // to make while the live records fit.  Afterwards a lookup would no longer
    // return "exactly the unexpired records".
    if live_before <= desired {
        let lost: Vec<String> =
            live_removed.iter().filter(|k| before[**k] - now >= SEC).map(|k| format!("{k:?}")).collect();
        if !lost.is_empty() {
            vs.push(Violation::new("c05.live_record_lost_in_prune").detail(json!({
                "step": step, "lost": lost, "live_before": live_before, "desired": desired, "now_ns": now
            })));
        }
    }
    if !evicted_names.is_empty() {
        if live_before - tolerated <= desired {
            vs.push(Violation::new("c15.evicted_while_within_size").detail(json!({
                "step": step, "live_after_expiry": live_before, "desired": desired
            })));
        }
        // some evicted name was needed: putting it back would exceed the size
        let needed = evicted_names.iter().any(|n| {
            let sz = live_removed.iter().filter(|k| k.0 == *n).count();
            after.len() + sz > desired
        });
        if !needed {
            vs.push(Violation::new("c15.evicted_more_than_needed").detail(json!({
                "step": step, "size_after": after.len(), "desired": desired,
                "evicted_names": evicted_names.iter().collect::<Vec<_>>()
            })));
        }
        // least recently used first
        let survivors: BTreeSet<u8> = after.keys().map(|k| k.0).collect();
        for e in &evicted_names {
            for s in &survivors {
                let lo_e = model.lo.get(e).copied().unwrap_or(0);
                let hi_s = model.hi.get(s).copied().unwrap_or(u64::MAX);
                if lo_e > hi_s {
                    vs.push(Violation::new("c15.not_lru").detail(json!({
                        "step": step, "evicted": e, "evicted_last_use_ns": lo_e,
                        "survivor": s, "survivor_last_use_ns": hi_s
                    })));
                }
            }
        }
    }
}

fn shrink_plan(plan: &CachePlan) -> Vec<CachePlan> {
    let mut out = Vec::new();
    let n = plan.ops.len();
    let mut chunk = n / 2;
    while chunk >= 1 {
        let mut i = 0;
        while i + chunk <= n {
            let mut p = plan.clone();
            p.ops.drain(i..i + chunk);
            out.push(p);
            i += chunk;
        }
        if chunk == 1 {
            break;
        }
        chunk /= 2;
    }
    // simplify single ops
    for (i, op) in plan.ops.iter().enumerate() {
        match op {
            Op::Advance { ms } if *ms > 1000 && ms % 1000 != 0 => {
                let mut p = plan.clone();
                p.ops[i] = Op::Advance { ms: ms / 1000 * 1000 };
                out.push(p);
            }
            Op::Insert { name, rtype, val, ttl } if *ttl > 5 => {
                let mut p = plan.clone();
                p.ops[i] = Op::Insert { name: *name, rtype: *rtype, val: *val, ttl: 5 };
                out.push(p);
            }
            _ => {}
        }
    }
    out
}

pub struct CacheProperty {
    pub id: &'static str,
}

impl CacheProperty {
    fn prefix(&self) -> &'static str {
        if self.id == "C05" {
            "c05."
        } else {
            "c15."
        }
    }
}

impl Property for CacheProperty {
    fn id(&self) -> &'static str {
        self.id
    }
    fn level(&self) -> &'static str {
        "exploration"
    }
    fn engine(&self) -> &'static str {
        "simcache"
    }
    fn budget(&self, tier: Tier) -> u64 {
        match tier {
            Tier::Quick => 200_000,
            Tier::Thorough => 4_000_000,
        }
    }
    fn plan(&self, seed: u64, _index: u64, tier: Tier) -> Value {
        serde_json::to_value(gen_plan(seed, tier)).unwrap()
    }
    fn execute(&self, plan: &Value, _exec: &Exec, _want_log: bool) -> RunResult {
        let plan: CachePlan = serde_json::from_value(plan.clone()).expect("HARNESS: bad cache plan");
        let mut r = execute(&plan);
        let prefix = self.prefix();
        r.violations.retain(|v| v.kind.starts_with(prefix));
        r.nontrivial = r.stats.contains_key(&format!("nontrivial.{}", self.id.to_lowercase()));
        r
    }
    fn shrink(&self, plan: &Value) -> Vec<Value> {
        let plan: CachePlan = serde_json::from_value(plan.clone()).unwrap();
        shrink_plan(&plan)
            .into_iter()
            .map(|p| serde_json::to_value(p).unwrap())
            .collect()
    }
    fn rule(&self) -> String {
        if self.id == "C05" {
            "histories of insert / re-insert / lookup (typed, ANY, AXFR-class, unchecked) / prune / advance over 2..5 names x 2..5 types x 2..3 values, TTLs {0,1,2,3,5,60,300,u32::MAX}, clock steps sub-second, whole seconds, ttl*1000-1|+0|+1 ms and hours; generated from the seed, executed on Cache or SharedCache under the virtual clock and compared after every step with a reference map. Non-trivial = a lookup met a record whose TTL had partly elapsed or had expired; distinct = distinct sequence of (operation, outcome) pairs".to_string()
        } else {
            "same histories plus cache size 1..40; after every prune the snapshot hook is compared with the reference map: nothing expired left, size bound, reported numbers, whole-name LRU evictions only while over size; after every operation record count == distinct entries. Non-trivial = a prune removed at least one record; distinct = distinct sequence of (operation, outcome) pairs".to_string()
        }
    }
    fn assumptions(&self) -> Vec<String> {
        vec![
            "virtual clock seam (simseam::clock) replaces std::time::Instant in cache.rs under cfg(resolved_verif)".into(),
            "verif_snapshot (hook H4) reports the cache's partitions faithfully".into(),
            "records with 0 < remaining < 1 s may be served or not, pruned or not (whole-second TTL is 0)".into(),
            "single-threaded histories here; thread interleavings are explored by the shuttle harness part of this check".into(),
        ]
    }
    fn components(&self) -> Value {
        json!({
            "real": ["dns_resolver::cache::{Cache, SharedCache, PartitionedCache}", "priority-queue crate"],
            "stub": ["clock (virtual, advanced explicitly)"],
        })
    }
}
