//! simworld/server: starts the real server tasks of `resolved` (listener
//! loops, per-request tasks, reload task, prune task) through hook H7 and
//! talks to them as clients over the simulated network, while an operator
//! actor edits configuration files and raises SIGUSR1.

use std::collections::BTreeMap;
use std::net::SocketAddr;
use std::path::PathBuf;
use std::rc::Rc;
use std::sync::{Arc, Mutex};
use std::time::Duration;

use dns_types::zones::types::Zones;
use serde::{Deserialize, Serialize};
use simseam::fs::FsEvent;
use simseam::net::{TcpStream, UdpSocket};
use simseam::world::{self, Decision};
use tokio::io::{AsyncReadExt, AsyncWriteExt};

use crate::netactors::{Exchange, ServerKnobs, UniverseNet};
use crate::resolve_engine::{install_world, make_runtime, protocol_mode};
use crate::runner::Exec;
use crate::server_main;
use crate::universe::Universe;

pub const SERVER_ADDR: &str = "127.0.0.1:53";

#[derive(Serialize, Deserialize, Clone, Debug)]
pub struct FileSpec {
    /// Relative to the run's scratch root.
    pub path: String,
    pub content: String,
}

#[derive(Serialize, Deserialize, Clone, Debug, Default)]
pub struct ServerArgs {
    pub zone_file: Vec<String>,
    pub zones_dir: Vec<String>,
    pub hosts_file: Vec<String>,
    pub hosts_dir: Vec<String>,
}

#[derive(Serialize, Deserialize, Clone, Debug)]
pub struct MsgPlan {
    pub at_ms: u64,
    /// `udp` | `tcp`
    pub proto: String,
    /// UDP payload, or TCP message body (without the length prefix).
    pub bytes_hex: String,
    /// TCP: length prefix to send (`None` = the right one).
    #[serde(default)]
    pub prefix: Option<u16>,
    /// TCP: send only the first n bytes of the framed message.
    #[serde(default)]
    pub cut_at: Option<usize>,
    /// TCP: write in pieces of this many bytes (0 = one write).
    #[serde(default)]
    pub piece: usize,
    #[serde(default)]
    pub piece_gap_ms: u64,
    /// TCP: `wait` | `half_close` | `close` | `reset` after sending.
    #[serde(default)]
    pub after: String,
    /// How long the client listens for replies after sending.
    pub listen_ms: u64,
    /// Free-form label of what kind of message this is.
    #[serde(default)]
    pub what: String,
}

#[derive(Serialize, Deserialize, Clone, Debug)]
#[serde(tag = "action")]
pub enum OperatorAction {
    Write { path: String, content: String },
    Remove { path: String },
    Mkdir { path: String },
    Signal,
    /// Harness observation: copy the configuration behind the lock.
    Snapshot,
}

#[derive(Serialize, Deserialize, Clone, Debug)]
pub struct OperatorStep {
    pub at_ms: u64,
    #[serde(flatten)]
    pub action: OperatorAction,
}

#[derive(Serialize, Deserialize, Clone, Debug)]
pub struct ServerKnobsPlan {
    pub authoritative_only: bool,
    pub forwarding: bool,
    pub protocol_mode: String,
    pub cache_size: usize,
    pub upstream: ServerKnobs,
    pub faults: BTreeMap<String, f64>,
    pub params: BTreeMap<String, u64>,
}

#[derive(Serialize, Deserialize, Clone, Debug)]
pub struct ServerPlan {
    pub knobs: ServerKnobsPlan,
    pub universe: Universe,
    pub dirs: Vec<String>,
    pub files: Vec<FileSpec>,
    pub args: ServerArgs,
    pub messages: Vec<MsgPlan>,
    pub operator: Vec<OperatorStep>,
    /// Probe queries sent after everything else (`name`, `qtype`).
    pub probes: Vec<(String, String)>,
}

#[derive(Clone, Debug)]
pub struct MsgObs {
    pub index: usize,
    pub sent_ms: u64,
    /// UDP: datagrams received; TCP: the bytes read, in one blob.
    pub replies: Vec<(u64, Vec<u8>)>,
    pub tcp_eof: bool,
    pub tcp_error: Option<String>,
    pub connect_failed: bool,
    /// The server's `send_to` for this client failed (injected).
    pub reply_send_failed: bool,
    /// The server's `accept` for this connection failed (injected).
    pub aborted_at_accept: bool,
}

#[derive(Clone, Debug)]
pub struct ReloadObs {
    pub signalled_ms: u64,
}

pub struct ServerObs {
    pub started: bool,
    pub messages: Vec<MsgObs>,
    pub probes: Vec<MsgObs>,
    /// Zones in force: (from_ms, zones).  Entry 0 is the start-up configuration.
    pub versions: Vec<(u64, Zones)>,
    pub fs_log: Vec<FsEvent>,
    pub exchanges: Vec<Exchange>,
    pub tasks_alive: (bool, bool, bool, bool),
    pub stats: BTreeMap<String, u64>,
    pub taken: Vec<Decision>,
    pub log_hash: u64,
    pub log_events: u64,
    pub log_text: Option<Vec<String>>,
    pub sim_ms: u64,
    pub signals_raised: u64,
    pub signals_delivered: u64,
    pub root: PathBuf,
}

pub fn hex(bytes: &[u8]) -> String {
    bytes.iter().map(|b| format!("{b:02x}")).collect()
}

pub fn unhex(s: &str) -> Vec<u8> {
    (0..s.len() / 2)
        .map(|i| u8::from_str_radix(&s[2 * i..2 * i + 2], 16).unwrap_or(0))
        .collect()
}

static RUN_COUNTER: std::sync::atomic::AtomicU64 = std::sync::atomic::AtomicU64::new(0);

pub fn scratch_root() -> PathBuf {
    let base = std::env::var("VERIF_SCRATCH").unwrap_or_else(|_| "/dev/shm".to_string());
    let n = RUN_COUNTER.fetch_add(1, std::sync::atomic::Ordering::Relaxed);
    PathBuf::from(base).join(format!("verif-run-{}-{n}", std::process::id()))
}

pub fn materialise(root: &std::path::Path, dirs: &[String], files: &[FileSpec]) {
    let _ = std::fs::remove_dir_all(root);
    std::fs::create_dir_all(root).expect("HARNESS: scratch root");
    for d in dirs {
        std::fs::create_dir_all(root.join(d)).expect("HARNESS: scratch dir");
    }
    for f in files {
        let p = root.join(&f.path);
        if let Some(parent) = p.parent() {
            std::fs::create_dir_all(parent).expect("HARNESS: scratch dir");
        }
        std::fs::write(&p, &f.content).expect("HARNESS: scratch file");
    }
}

/// Replace a file atomically (write a sibling outside the listed directory,
/// then rename), as an editor or a deployment script would.
fn atomic_write(root: &std::path::Path, rel: &str, content: &str) {
    let target = root.join(rel);
    if let Some(parent) = target.parent() {
        let _ = std::fs::create_dir_all(parent);
    }
    let tmp = root.join(format!(".tmp-{}", rel.replace('/', "_")));
    std::fs::write(&tmp, content).expect("HARNESS: write tmp");
    std::fs::rename(&tmp, &target).expect("HARNESS: rename");
}

async fn run_message(index: usize, m: MsgPlan, server: SocketAddr, label_prefix: &'static str) -> MsgObs {
    tokio::time::sleep(Duration::from_millis(m.at_ms)).await;
    let mut obs = MsgObs {
        index,
        sent_ms: simseam::clock::elapsed_ms(),
        replies: Vec::new(),
        tcp_eof: false,
        tcp_error: None,
        connect_failed: false,
        reply_send_failed: false,
        aborted_at_accept: false,
    };
    let payload = unhex(&m.bytes_hex);
    let label = format!("{label_prefix}{index}");
    if m.proto == "udp" {
        let local: SocketAddr = format!("127.0.0.1:{}", 60000 + index % 5000).parse().unwrap();
        let Ok(sock) = UdpSocket::bind_labeled(local, &label) else {
            obs.connect_failed = true;
            return obs;
        };
        let _ = sock.send_to(&payload, server).await;
        let deadline = tokio::time::Instant::now() + Duration::from_millis(m.listen_ms);
        let mut buf = vec![0u8; 4096];
        loop {
            match tokio::time::timeout_at(deadline, sock.recv_from(&mut buf)).await {
                Ok(Ok((n, _))) => obs.replies.push((simseam::clock::elapsed_ms(), buf[..n].to_vec())),
                Ok(Err(_)) | Err(_) => break,
            }
        }
        obs.reply_send_failed =
            simseam::world::with(|w| w.net.send_failed_to.iter().any(|a| a.port() == local.port()));
    } else {
        let stream = TcpStream::connect_labeled(server, &label).await;
        let Ok(mut stream) = stream else {
            obs.connect_failed = true;
            return obs;
        };
        let prefix = m
            .prefix
            .unwrap_or_else(|| u16::try_from(payload.len()).unwrap_or(u16::MAX));
        let mut framed = prefix.to_be_bytes().to_vec();
        framed.extend_from_slice(&payload);
        if let Some(cut) = m.cut_at {
            framed.truncate(cut.min(framed.len()));
        }
        let mut write_failed = false;
        if m.piece == 0 {
            write_failed = stream.write_all(&framed).await.is_err();
        } else {
            for chunk in framed.chunks(m.piece) {
                if stream.write_all(chunk).await.is_err() {
                    write_failed = true;
                    break;
                }
                if m.piece_gap_ms > 0 {
                    tokio::time::sleep(Duration::from_millis(m.piece_gap_ms)).await;
                }
            }
        }
        if write_failed {
            obs.tcp_error = Some("write failed".into());
        }
        match m.after.as_str() {
            "half_close" => stream.shutdown_write(),
            "close" => {
                drop(stream);
                return obs;
            }
            "reset" => {
                stream.reset();
                drop(stream);
                return obs;
            }
            _ => {}
        }
        let deadline = tokio::time::Instant::now() + Duration::from_millis(m.listen_ms);
        let mut blob: Vec<u8> = Vec::new();
        let mut buf = vec![0u8; 4096];
        let mut first_at = 0;
        loop {
            match tokio::time::timeout_at(deadline, stream.read(&mut buf)).await {
                Ok(Ok(0)) => {
                    obs.tcp_eof = true;
                    break;
                }
                Ok(Ok(n)) => {
                    if blob.is_empty() {
                        first_at = simseam::clock::elapsed_ms();
                    }
                    blob.extend_from_slice(&buf[..n]);
                }
                Ok(Err(e)) => {
                    obs.tcp_error = Some(e.kind().to_string());
                    break;
                }
                Err(_) => break,
            }
        }
        if !blob.is_empty() {
            obs.replies.push((first_at, blob));
        }
        obs.aborted_at_accept = simseam::world::with(|w| w.net.accept_aborted.contains(&label));
    }
    obs
}

/// Run a plan.  `on_reload_poll`: how often (ms) the harness samples the
/// configuration in force (the zones behind the lock) to build `versions`.
#[allow(clippy::too_many_lines)]
pub fn run(plan: &ServerPlan, exec: &Exec, want_log: bool) -> ServerObs {
    run_keep(plan, exec, want_log, false)
}

/// Like `run`; with `keep_root` the scratch directory is left in place (its
/// path is in `ServerObs::root`) and the caller removes it.
pub fn run_keep(plan: &ServerPlan, exec: &Exec, want_log: bool, keep_root: bool) -> ServerObs {
    let root = scratch_root();
    materialise(&root, &plan.dirs, &plan.files);
    let rt = make_runtime(exec.seed());
    let root2 = root.clone();
    let obs = rt.block_on(async {
        simseam::clock::use_tokio();
        install_world(exec, &plan.knobs.faults, &plan.knobs.params, want_log);
        world::with(|w| w.fs.root.clone_from(&root2));
        let forwarder: Option<SocketAddr> = if plan.knobs.forwarding {
            Some(crate::resolve_engine::FORWARDER.parse().unwrap())
        } else {
            None
        };
        let mut net = UniverseNet::new(plan.universe.clone(), plan.knobs.upstream.clone(), 53);
        net.forwarder = forwarder;
        let net = Rc::new(std::cell::RefCell::new(net));
        world::with(|w| {
            w.net.set_internet(net.clone());
            w.set_ctx("srv");
        });

        let abs = |v: &Vec<String>| -> Vec<PathBuf> { v.iter().map(|p| root2.join(p)).collect() };
        let server_addr: SocketAddr = SERVER_ADDR.parse().unwrap();
        let config = server_main::verif::ServerConfig {
            address: server_addr,
            authoritative_only: plan.knobs.authoritative_only,
            protocol_mode: protocol_mode(&plan.knobs.protocol_mode),
            upstream_dns_port: 53,
            forward_address: forwarder,
            cache_size: plan.knobs.cache_size,
            hosts_file: abs(&plan.args.hosts_file),
            hosts_dir: abs(&plan.args.hosts_dir),
            zone_file: abs(&plan.args.zone_file),
            zones_dir: abs(&plan.args.zones_dir),
        };
        let server = server_main::verif::start(config).await;
        let mut out = ServerObs {
            started: server.is_some(),
            messages: Vec::new(),
            probes: Vec::new(),
            versions: Vec::new(),
            fs_log: Vec::new(),
            exchanges: Vec::new(),
            tasks_alive: (false, false, false, false),
            stats: BTreeMap::new(),
            taken: Vec::new(),
            log_hash: 0,
            log_events: 0,
            log_text: None,
            sim_ms: 0,
            signals_raised: 0,
            signals_delivered: 0,
            root: root2.clone(),
        };
        if let Some(server) = server {
            let start_zones = {
                let guard = server.zones_lock.read().await;
                zones_of(&guard)
            };
            let versions: Arc<Mutex<Vec<(u64, Zones)>>> = Arc::new(Mutex::new(vec![(0, start_zones)]));

            // clients
            let mut handles = Vec::new();
            for (i, m) in plan.messages.iter().enumerate() {
                handles.push(tokio::spawn(run_message(i, m.clone(), server_addr, "c")));
            }
            // operator
            let steps = plan.operator.clone();
            let root3 = root2.clone();
            let zl = server.zones_lock.clone();
            let v2 = versions.clone();
            let op = tokio::spawn(async move {
                let mut now = 0u64;
                for s in steps {
                    if s.at_ms > now {
                        tokio::time::sleep(Duration::from_millis(s.at_ms - now)).await;
                        now = s.at_ms;
                    }
                    match &s.action {
                        OperatorAction::Write { path, content } => {
                            atomic_write(&root3, path, content);
                            world::with(|w| w.log_event("operator.write", path));
                        }
                        OperatorAction::Remove { path } => {
                            let _ = std::fs::remove_file(root3.join(path));
                            world::with(|w| w.log_event("operator.remove", path));
                        }
                        OperatorAction::Mkdir { path } => {
                            let _ = std::fs::create_dir_all(root3.join(path));
                        }
                        OperatorAction::Signal => simseam::signal::raise_sigusr1(),
                        OperatorAction::Snapshot => {
                            let z = {
                                let guard = zl.read().await;
                                zones_of(&guard)
                            };
                            v2.lock().unwrap().push((simseam::clock::elapsed_ms(), z));
                        }
                    }
                }
            });
            let _ = op.await;
            for h in handles {
                if let Ok(o) = h.await {
                    out.messages.push(o);
                }
            }

            // final probes: is the server still serving?
            for (i, (name, qtype)) in plan.probes.iter().enumerate() {
                for proto in ["udp", "tcp"] {
                    let mut q = dns_types::protocol::types::Message::from_question(
                        u16::try_from(40000 + i).unwrap(),
                        crate::util::question(name, qtype),
                    );
                    q.header.recursion_desired = false;
                    let m = MsgPlan {
                        at_ms: 0,
                        proto: proto.into(),
                        bytes_hex: hex(&q.to_octets().expect("HARNESS: probe")),
                        prefix: None,
                        cut_at: None,
                        piece: 0,
                        piece_gap_ms: 0,
                        after: "wait".into(),
                        listen_ms: 3_000,
                        what: "probe".into(),
                    };
                    let idx = 9000 + 2 * i + usize::from(proto == "tcp");
                    out.probes.push(run_message(idx, m, server_addr, "p").await);
                }
            }
            out.tasks_alive = (
                !server.tcp_task.is_finished(),
                !server.udp_task.is_finished(),
                !server.reload_task.is_finished(),
                !server.prune_task.is_finished(),
            );
            let final_zones = {
                let guard = server.zones_lock.read().await;
                zones_of(&guard)
            };
            let mut v = versions.lock().unwrap().clone();
            v.push((simseam::clock::elapsed_ms(), final_zones));
            out.versions = v;
            server.tcp_task.abort();
            server.udp_task.abort();
            server.reload_task.abort();
            server.prune_task.abort();
        }
        out.sim_ms = simseam::clock::elapsed_ms();
        world::with(|w| w.net.clear_internet());
        let w = world::uninstall().expect("HARNESS: world vanished");
        simseam::clock::unset();
        out.exchanges = std::mem::take(&mut net.borrow_mut().exchanges);
        out.fs_log = w.fs.log.clone();
        out.stats = w.stats.clone();
        out.taken = w.taken.clone();
        out.log_hash = w.log_hash();
        out.log_events = w.log_count();
        out.log_text = w.log_text.clone();
        out.signals_raised = w.sig.raised;
        out.signals_delivered = w.sig.delivered;
        out
    });
    drop(rt);
    if !keep_root {
        let _ = std::fs::remove_dir_all(&root);
    }
    obs
}

/// A copy of the configuration behind the server's lock (the guard derefs to
/// `Zones`, directly or through an `Arc`).
fn zones_of(z: &Zones) -> Zones {
    z.clone()
}
