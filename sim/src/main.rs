//! Deterministic simulator for `barrucadu/resolved` (see /verif/DESIGN.md).

#[cfg(not(resolved_verif))]
compile_error!("the simulator must be built with --cfg resolved_verif");

mod cache_engine;
mod netactors;
mod props_fs;
mod props_local;
mod props_resolve;
mod props_server;
mod server_engine;

#[path = "/repo/crates/resolved/src/main.rs"]
#[allow(dead_code, unused_imports, clippy::all, clippy::pedantic)]
mod server_main;
mod resolve_engine;
mod runner;
mod universe;
mod util;

use std::path::PathBuf;

use runner::{BatchConfig, Property, Tier};

static C05: cache_engine::CacheProperty = cache_engine::CacheProperty { id: "C05" };
static C15: cache_engine::CacheProperty = cache_engine::CacheProperty { id: "C15" };
static C07: props_resolve::C07 = props_resolve::C07;
static C18: props_resolve::C18 = props_resolve::C18;
static C08: props_resolve::C08 = props_resolve::C08;
static C10: props_resolve::C10 = props_resolve::C10;
static C06: props_resolve::C06 = props_resolve::C06;
static C01: props_local::C01 = props_local::C01;
static C09: props_server::C09 = props_server::C09;
static C12: props_fs::C12 = props_fs::C12;
static C19: props_server::C19 = props_server::C19;

fn properties() -> Vec<&'static dyn Property> {
    vec![&C05, &C15, &C07, &C18, &C08, &C10, &C06, &C01, &C09, &C12, &C19]
}

fn find(id: &str) -> &'static dyn Property {
    properties()
        .into_iter()
        .find(|p| p.id() == id)
        .unwrap_or_else(|| {
            eprintln!("harness error: no check for property {id}");
            std::process::exit(2);
        })
}

fn tier_of(s: &str) -> Tier {
    match s {
        "quick" => Tier::Quick,
        "thorough" => Tier::Thorough,
        _ => {
            eprintln!("harness error: tier must be quick or thorough");
            std::process::exit(2);
        }
    }
}

fn env_u64(name: &str, default: u64) -> u64 {
    std::env::var(name)
        .ok()
        .and_then(|s| s.trim().parse().ok())
        .unwrap_or(default)
}

fn main() {
    let args: Vec<String> = std::env::args().collect();
    let cmd = args.get(1).map_or("", String::as_str);
    match cmd {
        "run" => {
            let prop = find(&args[2]);
            let tier = tier_of(args.get(3).map_or("quick", String::as_str));
            let verif_dir = PathBuf::from(
                std::env::var("VERIF_DIR").unwrap_or_else(|_| "/verif".to_string()),
            );
            let scratch = PathBuf::from(std::env::var("VERIF_SCRATCH").unwrap_or_else(|_| {
                format!("/dev/shm/verif-{}", std::process::id())
            }));
            let cfg = BatchConfig {
                tier,
                seed: env_u64("VERIF_SEED", 1),
                jobs: env_u64("VERIF_JOBS", 16).max(1),
                verif_dir,
                scratch: scratch.clone(),
            };
            let code = runner::run_batch(prop, &cfg);
            let _ = std::fs::remove_dir_all(&scratch);
            std::process::exit(code);
        }
        "worker" => {
            let prop = find(&args[2]);
            let tier = tier_of(&args[3]);
            let seed: u64 = args[4].parse().unwrap();
            let w: u64 = args[5].parse().unwrap();
            let n: u64 = args[6].parse().unwrap();
            let total: u64 = args[7].parse().unwrap();
            let cap: u64 = args[8].parse().unwrap();
            runner::worker_main(
                prop,
                tier,
                seed,
                w,
                n,
                total,
                cap,
                &PathBuf::from(&args[9]),
                &PathBuf::from(&args[10]),
            );
        }
        "replay" => {
            let verbose = args.iter().any(|a| a == "-v");
            let code = runner::replay(&properties(), &PathBuf::from(&args[2]), verbose);
            std::process::exit(code);
        }
        "hashes" => {
            // sim hashes <ID> <tier> <count> <w> <n>: event-log hash of runs w, w+n, .. below count
            let prop = find(&args[2]);
            let tier = tier_of(&args[3]);
            let count: u64 = args[4].parse().unwrap();
            let w: u64 = args.get(5).map_or(0, |s| s.parse().unwrap());
            let n: u64 = args.get(6).map_or(1, |s| s.parse().unwrap());
            let base = env_u64("VERIF_SEED", 1);
            runner::install_panic_hook();
            let mut index = w;
            while index < count {
                let seed = util::seed_for(base, prop.id(), index);
                let plan = prop.plan(seed, index, tier);
                let r = runner::run_isolated(prop, &plan, &runner::Exec::Seeded(seed), false);
                let kinds: Vec<String> = r.violations.iter().map(runner::Violation::signature).collect();
                println!(
                    "{index} {seed:016x} {:016x} {:016x} {} {}",
                    r.log_hash,
                    r.shape,
                    r.log_events,
                    kinds.join("|")
                );
                index += n;
            }
        }
        "plan" => {
            // print the plan of one run: sim plan <ID> <tier> <index>
            let prop = find(&args[2]);
            let tier = tier_of(&args[3]);
            let index: u64 = args[4].parse().unwrap();
            let seed = util::seed_for(env_u64("VERIF_SEED", 1), prop.id(), index);
            println!(
                "{}",
                serde_json::to_string_pretty(&prop.plan(seed, index, tier)).unwrap()
            );
        }
        _ => {
            eprintln!("usage: sim run <ID> quick|thorough | replay <file> [-v] | plan <ID> <tier> <index>");
            std::process::exit(2);
        }
    }
}
