//! Properties decided on the simworld/resolve engine.

use std::collections::BTreeMap;

use dns_resolver::util::types::{ResolutionError, ResolvedRecord};
use dns_types::protocol::types::*;
use serde_json::{json, Value};

use crate::netactors::ServerKnobs;
use crate::resolve_engine::{self, Knobs, LocalZone, Observations, QObs, QuestionPlan, ResolvePlan};
use crate::runner::{Exec, Property, RunResult, Tier, Violation};
use crate::universe::{self, GenOpts, Universe};
use crate::util::{show_qtype, show_rr, Rng};

pub fn rr_key(rr: &ResourceRecord) -> (String, String) {
    (
        rr.name.to_dotted_string(),
        crate::util::show_data(&rr.rtype_with_data),
    )
}

pub fn show_result(r: &Result<ResolvedRecord, ResolutionError>) -> Value {
    match r {
        Ok(ResolvedRecord::Authoritative { rrs, soa_rr }) => json!({
            "kind": "Authoritative",
            "rrs": rrs.iter().map(show_rr).collect::<Vec<_>>(),
            "soa": show_rr(soa_rr),
        }),
        Ok(ResolvedRecord::AuthoritativeNameError { soa_rr }) => json!({
            "kind": "AuthoritativeNameError", "soa": show_rr(soa_rr),
        }),
        Ok(ResolvedRecord::NonAuthoritative { rrs, soa_rr }) => json!({
            "kind": "NonAuthoritative",
            "rrs": rrs.iter().map(show_rr).collect::<Vec<_>>(),
            "soa": soa_rr.as_ref().map(show_rr),
        }),
        Ok(ResolvedRecord::Referral { ns_rrs }) => json!({
            "kind": "Referral",
            "ns": ns_rrs.iter().map(show_rr).collect::<Vec<_>>(),
        }),
        Err(e) => json!({ "kind": "Error", "error": e.to_string() }),
    }
}

pub fn hints_zone(u: &Universe) -> LocalZone {
    LocalZone {
        apex: ".".into(),
        soa: None,
        records: universe::root_hints(u),
    }
}

pub fn qfacts(q: &QObs) -> Value {
    json!({
        "question": format!("{} {}", q.question.name, show_qtype(q.question.qtype)),
        "index": q.index,
        "result": show_result(&q.result),
        "elapsed_ms": q.elapsed_ms,
    })
}

pub fn exchange_summary(obs: &Observations, q: &QObs) -> Vec<String> {
    obs.exchanges[q.exchanges.clone()]
        .iter()
        .map(|e| {
            format!(
                "{} {} {} q={} fault={} replied={}",
                e.label,
                e.proto,
                e.to,
                e.request
                    .as_ref()
                    .and_then(|m| m.questions.first())
                    .map_or_else(String::new, |q| format!("{} {}", q.name, show_qtype(q.qtype))),
                e.fault,
                e.replied
            )
        })
        .collect()
}

/// Common knob randomisation: latency, ordering, server behaviour, cache size.
pub fn random_benign_knobs(r: &mut Rng) -> Knobs {
    let mut k = Knobs::default();
    let max_extra = *r.pick(&[0u64, 4, 49, 499]);
    k.params.insert("net.latency.max_extra_ms".into(), max_extra);
    if max_extra > 0 {
        k.faults.insert("udp.delay".into(), 0.7);
        k.faults.insert("tcp.delay".into(), 0.7);
    }
    k.faults.insert("order.permute".into(), *r.pick(&[0.0, 0.5, 1.0]));
    k.faults.insert("order.any_answer".into(), *r.pick(&[0.0, 0.5, 1.0]));
    k.faults.insert("tcp.segment".into(), *r.pick(&[0.0, 0.3]));
    k.faults.insert("tcp.short_read".into(), *r.pick(&[0.0, 0.3]));
    k.faults.insert("tcp.partial_write".into(), *r.pick(&[0.0, 0.2]));
    k.server = ServerKnobs {
        chase_cnames: r.chance(0.6),
        sibling_glue: r.chance(0.3),
        // the order of an answer section is not something the protocol promises
        shuffle_answers: r.chance(0.25),
        tc_every: *r.pick(&[0u32, 0, 3, 5]),
        root_glue_family: 0,
    };
    k.cache_size = if r.chance(0.3) { r.range(1, 16) as usize } else { 512 };
    k
}

pub const GAPS: [u64; 9] = [0, 0, 10, 900, 4000, 6000, 61_000, 301_000, 4_000_000];

pub fn shrink_resolve_plan(plan: &ResolvePlan) -> Vec<ResolvePlan> {
    let mut out = Vec::new();
    // fewer questions
    if plan.questions.len() > 1 {
        for i in 0..plan.questions.len() {
            let mut p = plan.clone();
            p.questions.remove(i);
            out.push(p);
        }
    }
    // no forced faults / fewer fault kinds
    for i in 0..plan.knobs.forced_faults.len() {
        let mut p = plan.clone();
        p.knobs.forced_faults.remove(i);
        out.push(p);
    }
    // fewer cache preloads
    for i in 0..plan.cache_preload.len() {
        let mut p = plan.clone();
        p.cache_preload.remove(i);
        out.push(p);
    }
    // fewer local records / zones
    for zi in 0..plan.local.len() {
        if plan.local[zi].apex != "." || plan.local.len() > 1 {
            let mut p = plan.clone();
            p.local.remove(zi);
            out.push(p);
        }
        for ri in 0..plan.local[zi].records.len() {
            let mut p = plan.clone();
            p.local[zi].records.remove(ri);
            out.push(p);
        }
    }
    // leaf zones of the universe that nothing depends on
    for zi in (1..plan.universe.zones.len()).rev() {
        if plan.universe.children(zi).is_empty() {
            let apex = &plan.universe.zones[zi].apex;
            let referenced = plan
                .universe
                .zones
                .iter()
                .enumerate()
                .any(|(j, z)| j != zi && z.ns.iter().any(|h| universe::under(h, apex)));
            if !referenced {
                let mut p = plan.clone();
                p.universe.zones.remove(zi);
                out.push(p);
            }
        }
    }
    // fewer universe records (keep name-server addresses)
    for zi in 0..plan.universe.zones.len() {
        for ri in 0..plan.universe.zones[zi].records.len() {
            let rec = &plan.universe.zones[zi].records[ri];
            let is_ns_host = plan
                .universe
                .zones
                .iter()
                .any(|z| z.ns.iter().any(|h| universe::names_equal(h, &rec.owner)));
            if !is_ns_host {
                let mut p = plan.clone();
                p.universe.zones[zi].records.remove(ri);
                out.push(p);
            }
        }
    }
    // simpler knobs
    for i in 0..plan.questions.len() {
        if plan.questions[i].gap_ms > 0 {
            let mut p = plan.clone();
            p.questions[i].gap_ms = 0;
            out.push(p);
        }
        if plan.questions[i].prune_before {
            let mut p = plan.clone();
            p.questions[i].prune_before = false;
            out.push(p);
        }
    }
    if plan.knobs.server.tc_every != 0 {
        let mut p = plan.clone();
        p.knobs.server.tc_every = 0;
        out.push(p);
    }
    if plan.knobs.cache_size != 512 {
        let mut p = plan.clone();
        p.knobs.cache_size = 512;
        out.push(p);
    }
    out
}

pub fn base_result(obs: &Observations) -> RunResult {
    RunResult {
        violations: Vec::new(),
        nontrivial: false,
        shape: resolve_engine::shape_of(obs),
        log_hash: obs.log_hash,
        log_events: obs.log_events,
        sim_ms: obs.sim_ms,
        stats: obs.stats.clone(),
        taken: obs.taken.clone(),
        states: Vec::new(),
        sample: None,
        log_text: obs.log_text.clone(),
    }
}

pub fn plan_sample(plan: &ResolvePlan) -> Value {
    json!({
        "mode": plan.knobs.mode,
        "protocol_mode": plan.knobs.protocol_mode,
        "zones": plan.universe.zones.iter().map(|z| format!("{} ns={:?}", z.apex, z.ns)).collect::<Vec<_>>(),
        "local_zones": plan.local.iter().map(|z| format!("{} soa={} records={}", z.apex, z.soa.is_some(), z.records.len())).collect::<Vec<_>>(),
        "questions": plan.questions.iter().map(|q| format!("+{}ms {} {} rd={}", q.gap_ms, q.name, q.qtype, q.recursive)).collect::<Vec<_>>(),
        "forced_faults": plan.knobs.forced_faults.iter().map(|f| format!("{}={}", f.exchange, f.kind)).collect::<Vec<_>>(),
        "fault_kinds": plan.knobs.upstream_fault_kinds,
    })
}

fn bump(stats: &mut BTreeMap<String, u64>, k: &str) {
    *stats.entry(k.to_string()).or_insert(0) += 1;
}

// ======================================================================= C07

pub struct C07;

fn gen_c07(seed: u64, tier: Tier) -> ResolvePlan {
    let mut r = Rng::new(seed);
    let mut knobs = random_benign_knobs(&mut r);
    let ttl_sets: [&[u32]; 6] = [&[300], &[5, 300], &[2, 60, 300], &[1, 5, 3600], &[1, 300], &[1, 2]];
    let opts = GenOpts {
        max_depth: match tier {
            Tier::Quick => r.range(1, 3),
            Tier::Thorough => r.range(1, 5),
        },
        max_zones: r.range(3, 10) as usize,
        family_profile: 0,
        multi_address_hosts: r.chance(0.3),
        cross_zone_cnames: true,
        wildcards: true,
        out_of_zone_ns: r.chance(0.7),
        ttl_choices: r.pick(&ttl_sets).to_vec(),
        // two siblings serving each other need the parent to send sibling glue
        mutual_sibling_ns: knobs.server.sibling_glue && r.chance(0.6),
        // out-of-zone servers whose addresses have to be looked up every time
        zero_ttl_outside_ns_addresses: *r.pick(&[0u8, 0, 0, 60]),
        // (now and then addresses that cannot be cached at all: TTL 0; own random stream)
        short_ttl_value: if Rng::new(seed ^ 0x0771_0000_a5a5).chance(0.35) { 0 } else { 1 },
        ghost_ns_percent: 0,
        parent_ns_serves_child_percent: 0,
    };
    // address families: mostly v4, sometimes dual/v6 with a matching mode
    let (fam, mode) = match r.below(6) {
        0 => (2, "prefer-v4"),
        1 => (2, "prefer-v6"),
        2 => (1, "only-v6"),
        3 => (2, "only-v4"),
        _ => (0, "only-v4"),
    };
    let opts = GenOpts {
        family_profile: fam,
        ..opts
    };
    knobs.protocol_mode = mode.to_string();
    let u = universe::generate(&mut r, &opts);
    let nq = r.range(1, 6) as usize;
    let qs = universe::interesting_questions(&u, &mut r, nq);
    let small_cache = knobs.cache_size < 512;
    let mut qs = qs;
    // histories: ask about a name again, for another type, so that the second
    // question meets what the first left in the cache
    for _ in 0..r.range(0, 2) {
        if !qs.is_empty() && qs.len() < 7 {
            let (name, _) = r.pick(&qs).clone();
            let qtype = (*r.pick(&["A", "AAAA", "MX", "TXT", "A"])).to_string();
            qs.push((name, qtype));
        }
    }
    let mut questions: Vec<QuestionPlan> = qs
        .into_iter()
        .map(|(name, qtype)| QuestionPlan {
            gap_ms: *r.pick(&GAPS),
            name,
            qtype,
            recursive: true,
            prune_before: small_cache && r.chance(0.5),
        })
        .collect();
    // an alias chain of two or more links asked twice in quick succession, for two
    // types: the second question finds the links in the cache and their end not
    let chain_starts: Vec<String> = u
        .zones
        .iter()
        .flat_map(|z| z.records.iter())
        .filter(|rec| !rec.wild && rec.rtype() == "CNAME")
        .filter(|rec| {
            u.zones.iter().flat_map(|z| z.records.iter()).any(|t| {
                !t.wild && t.rtype() == "CNAME" && universe::names_equal(&t.owner, rec.rdata())
            })
        })
        .map(|rec| rec.owner.clone())
        .collect();
    if !chain_starts.is_empty() && r.chance(0.35) {
        let name = r.pick(&chain_starts).clone();
        let t1 = *r.pick(&["A", "TXT", "MX", "AAAA"]);
        let t2 = *r.pick(&["A", "TXT", "MX", "AAAA"]);
        let at = r.below(questions.len() as u64 + 1) as usize;
        for (k, t) in [t1, t2].iter().enumerate() {
            questions.insert(
                at + k,
                QuestionPlan {
                    gap_ms: if k == 0 { *r.pick(&GAPS) } else { *r.pick(&[0u64, 10, 900]) },
                    name: name.clone(),
                    qtype: (*t).into(),
                    recursive: true,
                    prune_before: false,
                },
            );
        }
    }
    // a question asked again around the moment its answer leaves the cache, on a
    // machine that is held up now and then between two clock reads (fault
    // `clock.stall`): what the cache still gives out then is the whole record
    // set or nothing
    if !questions.is_empty() && r.chance(0.4) {
        knobs.faults.insert("clock.stall".into(), *r.pick(&[0.005, 0.02, 0.08]));
        let ttl = u64::from(*r.pick(&opts.ttl_choices));
        let at = r.below(questions.len() as u64) as usize;
        let again = QuestionPlan {
            gap_ms: (ttl * 1000 + *r.pick(&[0u64, 200, 500, 900])).saturating_sub(*r.pick(&[1000u64, 1000, 1300, 2000])),
            prune_before: false,
            ..questions[at].clone()
        };
        questions.insert(at + 1, again);
    }
    ResolvePlan {
        knobs,
        hints_auto: true,
        local: Vec::new(),
        universe: u,
        cache_preload: Vec::new(),
        questions,
    }
}

/// Is there, among the delegations this question depends on, one the cache
/// still holds (live NS set) while every one of its name servers is inside the
/// delegated zone and has no usable address left (expired glue)?  Used only to
/// classify a failure as the known finding about stale glue.
pub fn depends_on_dead_delegation(plan: &ResolvePlan, obs: &Observations, q: &QObs) -> bool {
    const SEC: u64 = 1_000_000_000;
    let local = resolve_engine::effective_local(plan);
    // name servers named by referrals received during this very resolution
    // (their NS sets may be too short-lived to count as cached)
    let mut referred: Vec<(String, String)> = Vec::new();
    for e in &obs.exchanges[q.exchanges.clone()] {
        if let Some(m) = &e.reply {
            for rr in m.authority.iter().chain(m.answers.iter()) {
                if let RecordTypeWithData::NS { nsdname } = &rr.rtype_with_data {
                    referred.push((rr.name.to_dotted_string(), nsdname.to_dotted_string()));
                }
            }
        }
    }
    let live_ns = |owner: &str| -> Vec<String> {
        let mut hosts: Vec<String> = q
            .cache_after
            .iter()
            .chain(q.cache_before.iter())
            .filter(|c| c.remaining_ns >= SEC && universe::names_equal(&c.rr.name.to_dotted_string(), owner))
            .filter_map(|c| match &c.rr.rtype_with_data {
                RecordTypeWithData::NS { nsdname } => Some(nsdname.to_dotted_string()),
                _ => None,
            })
            .collect();
        hosts.sort();
        hosts.dedup();
        hosts
    };
    // only addresses of a family the protocol mode can use count
    let v4_ok = plan.knobs.protocol_mode != "only-v6";
    let v6_ok = plan.knobs.protocol_mode != "only-v4";
    let has_address = |host: &str| -> bool {
        let in_cache = q.cache_after.iter().any(|c| {
            c.remaining_ns >= SEC
                && universe::names_equal(&c.rr.name.to_dotted_string(), host)
                && match c.rr.rtype_with_data {
                    RecordTypeWithData::A { .. } => v4_ok,
                    RecordTypeWithData::AAAA { .. } => v6_ok,
                    RecordTypeWithData::CNAME { .. } => true,
                    _ => false,
                }
        });
        let in_local = local.iter().any(|z| {
            z.records.iter().any(|r| {
                !r.wild
                    && universe::names_equal(&r.owner, host)
                    && match r.rtype() {
                        "A" => v4_ok,
                        "AAAA" => v6_ok,
                        "CNAME" => true,
                        _ => false,
                    }
            })
        });
        // ... or handed over in a reply of this very resolution (glue, an answer):
        // a resolver that fails with the address in its hands has another problem
        // (and with a TTL that has at least a second left when the resolution ends:
        // the cache serves nothing younger, see C05's level note)
        let ends_ms = obs.exchanges[q.exchanges.clone()].iter().map(|e| e.at_ms + e.delay_ms).max().unwrap_or(0);
        let handed_over = obs.exchanges[q.exchanges.clone()].iter().any(|e| {
            e.acceptable()
                && e.reply.as_ref().is_some_and(|m| {
                    m.answers.iter().chain(m.additional.iter()).any(|rr| {
                        u64::from(rr.ttl) * 1000 >= ends_ms.saturating_sub(e.at_ms) + 2000 + q.stall_ms
                            && universe::names_equal(&rr.name.to_dotted_string(), host)
                            && match rr.rtype_with_data {
                                RecordTypeWithData::A { .. } => v4_ok,
                                RecordTypeWithData::AAAA { .. } => v6_ok,
                                _ => false,
                            }
                    })
                })
        });
        in_cache || in_local || handed_over
    };
    // aliases seen in this resolution or held in the cache: their targets are needed too
    let mut aliases: Vec<(String, String)> = Vec::new();
    for e in &obs.exchanges[q.exchanges.clone()] {
        if let Some(m) = &e.reply {
            for rr in &m.answers {
                if let RecordTypeWithData::CNAME { cname } = &rr.rtype_with_data {
                    aliases.push((rr.name.to_dotted_string(), cname.to_dotted_string()));
                }
            }
        }
    }
    for c in q.cache_after.iter().chain(q.cache_before.iter()) {
        if let RecordTypeWithData::CNAME { cname } = &c.rr.rtype_with_data {
            aliases.push((c.rr.name.to_dotted_string(), cname.to_dotted_string()));
        }
    }
    // Dead domains: an NS set (live in the cache, or named by a referral of this very
    // resolution) none of whose hosts has a usable address, and every one of whose
    // hosts could only be looked up through a dead domain again (itself - servers
    // inside the zone they serve - or, in a circle, another: `com. NS ns1.net.` and
    // `net. NS ns1.com.` with both addresses expired) or is the very address question
    // in progress (which loop detection refuses to ask again).  The greatest such
    // set: start from all address-less sets and strike out those with a host that
    // can still be looked up.
    let ns_of = |owner: &str| -> Vec<String> {
        let mut hosts = live_ns(owner);
        for (o, h) in &referred {
            if universe::names_equal(o, owner) && !hosts.iter().any(|x| universe::names_equal(x, h)) {
                hosts.push(h.clone());
            }
        }
        hosts
    };
    let mut ns_owners: Vec<String> = q
        .cache_after
        .iter()
        .chain(q.cache_before.iter())
        .filter(|c| c.remaining_ns >= SEC && matches!(c.rr.rtype_with_data, RecordTypeWithData::NS { .. }))
        .map(|c| c.rr.name.to_dotted_string())
        .chain(referred.iter().map(|(o, _)| o.clone()))
        .collect();
    ns_owners.sort();
    ns_owners.dedup();
    // the question in progress is an address question for this host, and no address
    // question of another type could stand in for it
    let in_progress = |host: &str| -> bool {
        if !universe::names_equal(host, &q.question.name.to_dotted_string()) {
            return false;
        }
        let fams: Vec<&str> = plan.universe.host_addresses(host).iter().map(|r| if r.rtype() == "A" { "A" } else { "AAAA" }).collect();
        let other_usable = |other: &str, ok: bool| ok && fams.contains(&other);
        match q.question.qtype {
            QueryType::Record(RecordType::A) => v4_ok && !other_usable("AAAA", v6_ok),
            QueryType::Record(RecordType::AAAA) => v6_ok && !other_usable("A", v4_ok),
            _ => false,
        }
    };
    let enclosing = |host: &str| -> Option<String> {
        let mut anc = Some(host.to_string());
        while let Some(a) = anc {
            if !ns_of(&a).is_empty() {
                return Some(a);
            }
            anc = universe::parent(&a);
        }
        None
    };
    let mut dead: Vec<String> = ns_owners
        .iter()
        .filter(|a| !ns_of(a).iter().any(|h| has_address(h) && !in_progress(h)))
        .cloned()
        .collect();
    loop {
        let snapshot = dead.clone();
        dead.retain(|a| {
            ns_of(a).iter().all(|h| {
                in_progress(h) || enclosing(h).is_some_and(|d| snapshot.iter().any(|x| universe::names_equal(x, &d)))
            })
        });
        if dead.len() == snapshot.len() {
            break;
        }
    }
    let mut needed: Vec<String> = vec![q.question.name.to_dotted_string()];
    if let Err(ResolutionError::DeadEnd { question }) = &q.result {
        // the resolver says which (alias target) question it could not answer
        needed.push(question.name.to_dotted_string());
    }
    let mut i = 0;
    while i < needed.len() && needed.len() < 64 {
        for (owner, target) in &aliases {
            if universe::names_equal(owner, &needed[i]) && !needed.contains(target) {
                needed.push(target.clone());
            }
        }
        let mut anc = Some(needed[i].clone());
        while let Some(a) = anc {
            let hosts = live_ns(&a);
            if dead.iter().any(|x| universe::names_equal(x, &a)) {
                return true;
            }
            if !hosts.is_empty() {
                for h in hosts {
                    if !needed.contains(&h) {
                        needed.push(h);
                    }
                }
            }
            for (owner, h) in &referred {
                if universe::names_equal(owner, &a) && !needed.contains(h) {
                    needed.push(h.clone());
                }
            }
            anc = universe::parent(&a);
        }
        i += 1;
    }
    false
}

/// Compare a result with the reference resolver's answer.
pub fn compare_with_expected(
    u: &Universe,
    q: &QObs,
    dead_delegation: bool,
    expired_in_hand: bool,
    vs: &mut Vec<Violation>,
    detail: &dyn Fn() -> Value,
) {
    let qname = q.question.name.to_dotted_string();
    let e = u.expected(&qname, q.question.qtype);
    if e.alias_loop {
        return;
    }
    let (rrs, soa) = match &q.result {
        Ok(ResolvedRecord::NonAuthoritative { rrs, soa_rr }) => (rrs.clone(), soa_rr.clone()),
        Ok(other) => {
            vs.push(
                Violation::new("c07.unexpected_authority")
                    .detail(json!({"q": qfacts(q), "got": format!("{other:?}"), "run": detail()})),
            );
            return;
        }
        Err(err) => {
            vs.push(
                Violation::new("c07.resolution_failed")
                    .fact("error", err.to_string().split('\'').next().unwrap_or("").trim())
                    .fact("dead_delegation_in_cache", dead_delegation)
                    .fact("record_expired_during_clock_stall", expired_in_hand)
                    .detail(json!({"q": qfacts(q), "stall_ms": q.stall_ms, "run": detail()})),
            );
            return;
        }
    };
    let fail = |kind: &str, why: String| {
        Violation::new(kind).detail(json!({
            "why": why,
            "q": qfacts(q),
            "expected_chain": e.chain.iter().map(show_rr).collect::<Vec<_>>(),
            "expected_final": e.finals.iter().map(show_rr).collect::<Vec<_>>(),
            "expected_soa": e.neg_soa.as_ref().map(show_rr),
            "run": detail(),
        }))
    };
    if rrs.len() < e.chain.len() {
        vs.push(fail("c07.chain_incomplete", format!("{} records, chain needs {}", rrs.len(), e.chain.len())));
        return;
    }
    for (i, c) in e.chain.iter().enumerate() {
        if rr_key(&rrs[i]) != rr_key(c) {
            vs.push(fail("c07.chain_wrong", format!("position {i}: {}", show_rr(&rrs[i]))));
            return;
        }
        if rrs[i].ttl > c.ttl || (rrs[i].ttl == 0 && c.ttl > 0) {
            vs.push(fail("c07.ttl_out_of_range", format!("{}", show_rr(&rrs[i]))));
        }
    }
    let mut got: Vec<(String, String)> = rrs[e.chain.len()..].iter().map(rr_key).collect();
    let mut want: Vec<(String, String)> = e.finals.iter().map(rr_key).collect();
    got.sort();
    want.sort();
    if got != want {
        let glue_shortcut = want.len() > 1
            && got.len() == 1
            && want.contains(&got[0])
            && matches!(
                q.question.qtype,
                QueryType::Record(RecordType::A | RecordType::AAAA)
            );
        let mut v = fail("c07.final_set_wrong", format!("got {got:?} want {want:?}"));
        v = v.fact("subset_single_address", glue_shortcut);
        vs.push(v);
        return;
    }
    for f in &rrs[e.chain.len()..] {
        let auth = e.finals.iter().find(|x| rr_key(x) == rr_key(f)).unwrap();
        if f.ttl > auth.ttl || (f.ttl == 0 && auth.ttl > 0) {
            vs.push(fail("c07.ttl_out_of_range", show_rr(f)));
        }
    }
    match (&e.neg_soa, &soa) {
        (Some(want), Some(got)) => {
            if rr_key(want) != rr_key(got) || got.ttl > want.ttl {
                vs.push(fail("c07.soa_wrong", show_rr(got)));
            }
        }
        (Some(_), None) => vs.push(fail("c07.soa_missing", String::new())),
        (None, Some(got)) => vs.push(fail("c07.soa_unexpected", show_rr(got))),
        (None, None) => {}
    }
}

fn oracle_c07(plan: &ResolvePlan, obs: &Observations) -> RunResult {
    let mut res = base_result(obs);
    let max_extra = plan.knobs.params.get("net.latency.max_extra_ms").copied().unwrap_or(0);
    for q in &obs.questions {
        let qname = q.question.name.to_dotted_string();
        // ANY at an alias owner: what "the answer" is is not settled by the property
        if q.question.qtype == QueryType::Wildcard {
            let z = plan.universe.zone_owning(&qname);
            if let universe::ZLook::Cname(..) =
                plan.universe.zone_lookup(z, &qname, QueryType::Record(RecordType::A))
            {
                continue;
            }
        }
        let detail = || json!({ "exchanges": exchange_summary(obs, q) });
        let dead = q.result.is_err() && depends_on_dead_delegation(plan, obs, q);
        // the process was held up (fault `clock.stall`) and a name-server or address
        // record received in this resolution had less than a second left before it
        // could be used: referrals reach the next step through the cache, which
        // serves nothing in its last second
        let expired_in_hand = q.result.is_err() && q.stall_ms > 0 && {
            let exs = &obs.exchanges[q.exchanges.clone()];
            let ends_ms = exs.iter().map(|e| e.at_ms + e.delay_ms).max().unwrap_or(0);
            let ns_or_address = |rr: &ResourceRecord| {
                matches!(
                    rr.rtype_with_data,
                    RecordTypeWithData::NS { .. } | RecordTypeWithData::A { .. } | RecordTypeWithData::AAAA { .. }
                )
            };
            exs.iter().any(|e| {
                e.reply.as_ref().is_some_and(|m| {
                    m.answers.iter().chain(m.authority.iter()).chain(m.additional.iter()).any(|rr| {
                        ns_or_address(rr) && u64::from(rr.ttl) * 1000 < ends_ms.saturating_sub(e.at_ms) + q.stall_ms + 1000
                    })
                })
            })
            // ... or one the cache held, still usable, when the resolution began
            || q.cache_before.iter().any(|c| {
                ns_or_address(&c.rr)
                    && c.remaining_ns >= 1_000_000_000
                    && c.remaining_ns < (q.elapsed_ms + q.stall_ms + 1000) * 1_000_000
            })
        };
        if expired_in_hand {
            bump(&mut res.stats, "probe.failed_with_a_record_expired_in_hand_during_a_stall");
        }
        compare_with_expected(&plan.universe, q, dead, expired_in_hand, &mut res.violations, &detail);
        // bounded liveness: no timeout in a fault-free run
        let n_ex = q.exchanges.len() as u64;
        // per exchange: a few one-way latencies plus TCP segment dribbling
        let bound = n_ex * (8 * (1 + max_extra) + 700) + 50;
        if q.elapsed_ms > bound {
            res.violations.push(Violation::new("c07.too_slow").detail(json!({
                "q": qfacts(q), "bound_ms": bound, "exchanges": exchange_summary(obs, q)
            })));
        }
        // referrals strictly closer: adjacent trace entries of one question
        let tr = &obs.trace[q.trace.clone()];
        for w in tr.windows(2) {
            if w[0].question == w[1].question && w[1].match_count <= w[0].match_count {
                res.violations.push(Violation::new("c07.referral_not_closer").detail(json!({
                    "q": qfacts(q),
                    "first": format!("{} -> {} m={}", w[0].question, w[0].ip, w[0].match_count),
                    "second": format!("{} -> {} m={}", w[1].question, w[1].ip, w[1].match_count),
                })));
            }
        }
        if tr.len() >= 2 {
            res.nontrivial = true;
            bump(&mut res.stats, "probe.referral_followed");
        }
        if tr.is_empty() && q.result.is_ok() {
            bump(&mut res.stats, "probe.answered_from_cache");
        }
        let nested = tr.iter().any(|t| !t.question.starts_with(&format!("{qname} ")));
        if nested {
            bump(&mut res.stats, "probe.nested_lookup");
        }
        if obs.exchanges[q.exchanges.clone()].iter().any(|e| e.proto == "tcp") {
            bump(&mut res.stats, "probe.tcp_fallback_taken");
        }
        if !plan.universe.expected(&qname, q.question.qtype).chain.is_empty() {
            bump(&mut res.stats, "probe.alias_chain_question");
        }
    }
    res.sample = Some(plan_sample(plan));
    res
}

/// A stall caused by the storm of name-server address lookups (known finding
/// of C08/C07) says nothing about properties that do not speak of
/// termination: count the run as inconclusive there.
pub fn stall_is_inconclusive(r: &mut RunResult) {
    let storm = r.violations.iter().any(|v| {
        v.kind == "stall" && v.facts.get("address_lookup_storm") == Some(&Value::Bool(true))
    });
    if storm {
        r.violations.retain(|v| v.kind != "stall");
        *r.stats.entry("inconclusive.stalled_in_address_lookup_storm".into()).or_insert(0) += 1;
    }
}

macro_rules! resolve_property {
    ($ty:ident, $id:expr, $level:expr, $gen:ident, $oracle:ident, $quick:expr, $thorough:expr, $rule:expr, $assume:expr) => {
        resolve_property!($ty, $id, $level, $gen, $oracle, $quick, $thorough, $rule, $assume, false);
    };
    ($ty:ident, $id:expr, $level:expr, $gen:ident, $oracle:ident, $quick:expr, $thorough:expr, $rule:expr, $assume:expr, $storm_inconclusive:expr) => {
        impl Property for $ty {
            fn triage_abnormal(&self, r: &mut RunResult) {
                if $storm_inconclusive {
                    stall_is_inconclusive(r);
                }
            }
            fn id(&self) -> &'static str {
                $id
            }
            fn level(&self) -> &'static str {
                $level
            }
            fn engine(&self) -> &'static str {
                "simworld/resolve"
            }
            fn budget(&self, tier: Tier) -> u64 {
                match tier {
                    Tier::Quick => $quick,
                    Tier::Thorough => $thorough,
                }
            }
            fn plan(&self, seed: u64, index: u64, tier: Tier) -> Value {
                serde_json::to_value($gen(seed, index, tier)).unwrap()
            }
            fn execute(&self, plan: &Value, exec: &Exec, want_log: bool) -> RunResult {
                let plan: ResolvePlan =
                    serde_json::from_value(plan.clone()).expect("HARNESS: bad resolve plan");
                let obs = resolve_engine::run(&plan, exec, want_log);
                $oracle(&plan, &obs)
            }
            fn shrink(&self, plan: &Value) -> Vec<Value> {
                let plan: ResolvePlan = serde_json::from_value(plan.clone()).unwrap();
                shrink_resolve_plan(&plan)
                    .into_iter()
                    .map(|p| serde_json::to_value(p).unwrap())
                    .collect()
            }
            fn rule(&self) -> String {
                $rule.to_string()
            }
            fn assumptions(&self) -> Vec<String> {
                $assume.iter().map(|s: &&str| s.to_string()).collect()
            }
            fn components(&self) -> Value {
                json!({
                    "real": [
                        "dns_resolver::resolve and everything beneath it: resolve_local, resolve_recursive, resolve_forwarding, query_nameserver (UDP then TCP, both 5 s timeouts), util::net framing, SharedCache",
                        "dns_types wire codec and zone lookup",
                        "tokio timers on the paused clock"
                    ],
                    "stub": [
                        "UDP/TCP sockets (simseam::net)", "upstream name servers and forwarder (harness actors over a generated universe)",
                        "request IDs (keyed)", "order of name-server candidates (keyed permutation of the sorted list)"
                    ],
                })
            }
        }
    };
}

fn gen_c07_indexed(seed: u64, _index: u64, tier: Tier) -> ResolvePlan {
    gen_c07(seed, tier)
}

resolve_property!(
    C07,
    "C07",
    "exploration",
    gen_c07_indexed,
    oracle_c07,
    60_000,
    1_200_000,
    "consistent generated universes (depth 1..5, 1..3 name servers per zone, in-zone glue / out-of-zone hosts, cross-zone aliases, wildcards, empty non-terminals) x 1..6 questions sharing one cache with 0 s..67 min between them, fault-free network with random latency and candidate order, TC->TCP retries; every result compared with a global reference resolver. Non-trivial = at least one referral followed; distinct = distinct (exchange sequence, result classes)",
    [
        "reference servers and reference resolver in /verif/sim/src/universe.rs are correct (kept small; cross-checked by mutants)",
        "ANY questions at alias owners are skipped (the property does not settle them)",
        "no faults here: the code gives up on the first failed exchange by design; faults are C08's"
    ]
);

// ======================================================================= C18

pub struct C18;

/// A shape the random generator does not reach: the root and a second-level zone
/// share one dual-stack server, `ns1.<tld>.`, named in the TLD between them, which
/// other servers serve; the hints know only one of its families, the other arrives
/// as glue of the TLD's referral - between two contacts of the same host within
/// one walk down the tree.
fn shared_root_server_plan(r: &mut Rng, mut knobs: Knobs) -> ResolvePlan {
    use universe::{UZone, Universe};
    let tld = *r.pick(&["net.", "com."]);
    let h = |s: &str| universe::child_name(s, tld);
    let sub = h("a");
    let soa = |apex: &str, serial: u32| format!("SOA mname.{apex} hostmaster.{apex} {serial} 3600 600 86400 300");
    let ttl = *r.pick(&[300u32, 3600]);
    let shared = h("ns1");
    let other = h("ns2");
    let zones = vec![
        UZone { apex: ".".into(), soa: "SOA mname. hostmaster. 1 3600 600 86400 300".into(), soa_ttl: ttl, ns: vec![shared.clone()], ns_ttl: ttl, records: Vec::new() },
        UZone {
            apex: tld.into(),
            soa: soa(tld, 2),
            soa_ttl: ttl,
            ns: vec![other.clone()],
            ns_ttl: ttl,
            records: vec![
                universe::Rec::new(&shared, "A 10.100.0.1", ttl),
                universe::Rec::new(&shared, "AAAA fd00::100:1", ttl),
                universe::Rec::new(&other, "A 10.100.0.2", ttl),
                universe::Rec::new(&other, "AAAA fd00::100:2", ttl),
                universe::Rec::new(&h("www"), "A 10.100.0.20", ttl),
            ],
        },
        UZone {
            apex: sub.clone(),
            soa: soa(&sub, 3),
            soa_ttl: ttl,
            ns: vec![shared.clone()],
            ns_ttl: ttl,
            records: vec![
                universe::Rec::new(&universe::child_name("www", &sub), "A 10.100.0.30", ttl),
                universe::Rec::new(&universe::child_name("txt", &sub), "TXT deep", ttl),
            ],
        },
    ];
    knobs.mode = "recursive".into();
    knobs.protocol_mode = (*r.pick(&["prefer-v4", "prefer-v6"])).to_string();
    knobs.server.sibling_glue = true;
    knobs.server.root_glue_family = 0;
    // the hints: sometimes complete, mostly one family only
    let fam = *r.pick(&["A", "AAAA", "AAAA", "A", "both"]);
    let mut hints = vec![universe::Rec::new(".", &format!("NS {shared}"), 3_600_000)];
    if fam != "AAAA" {
        hints.push(universe::Rec::new(&shared, "A 10.100.0.1", 3_600_000));
    }
    if fam != "A" {
        hints.push(universe::Rec::new(&shared, "AAAA fd00::100:1", 3_600_000));
    }
    let names = [universe::child_name("www", &sub), universe::child_name("txt", &sub), h("www"), universe::child_name("missing", &sub)];
    let questions = (0..r.range(1, 3))
        .map(|_| QuestionPlan {
            gap_ms: *r.pick(&[0u64, 10, 4000]),
            name: r.pick(&names).clone(),
            qtype: (*r.pick(&["A", "TXT", "AAAA"])).into(),
            recursive: true,
            prune_before: false,
        })
        .collect();
    ResolvePlan {
        knobs,
        hints_auto: false,
        local: vec![LocalZone { apex: ".".into(), soa: None, records: hints }],
        universe: Universe { zones },
        cache_preload: Vec::new(),
        questions,
    }
}

fn gen_c18(seed: u64, _index: u64, tier: Tier) -> ResolvePlan {
    let mut r = Rng::new(seed);
    let mut knobs = random_benign_knobs(&mut r);
    if r.chance(0.03) {
        return shared_root_server_plan(&mut r, knobs);
    }
    // C18 holds whatever upstream servers do: now and then a server refers the next
    // deeper domain to itself, by name, with glue of both families
    let self_referrals = r.chance(0.15);
    let ttl_sets: [&[u32]; 4] = [&[300], &[5, 300], &[2, 60, 300], &[1, 5, 3600]];
    let opts = GenOpts {
        max_depth: match tier {
            Tier::Quick => r.range(1, 3),
            Tier::Thorough => r.range(1, 4),
        },
        max_zones: r.range(3, 9) as usize,
        family_profile: *r.pick(&[0u8, 1, 2, 3, 3, 3]),
        multi_address_hosts: r.chance(0.3),
        cross_zone_cnames: true,
        wildcards: false,
        out_of_zone_ns: r.chance(0.8),
        ttl_choices: r.pick(&ttl_sets).to_vec(),
        mutual_sibling_ns: false,
        // addresses of out-of-zone servers that can be used but never cached
        zero_ttl_outside_ns_addresses: *r.pick(&[0u8, 0, 30, 100]),
        short_ttl_value: 0,
        ghost_ns_percent: *r.pick(&[0u8, 0, 40]),
        parent_ns_serves_child_percent: 0,
    };
    // the same server met again one referral later, its other family's address
    // arriving with that referral (the root's glue covers one family only)
    let opts = if r.chance(0.3) {
        knobs.server.sibling_glue = true;
        knobs.server.root_glue_family = *r.pick(&[1u8, 2]);
        GenOpts {
            parent_ns_serves_child_percent: 60,
            family_profile: 2,
            ..opts
        }
    } else {
        opts
    };
    knobs.protocol_mode = (*r.pick(&["only-v4", "prefer-v4", "prefer-v6", "only-v6"])).to_string();
    knobs.upstream_port = *r.pick(&[53u16, 53, 5353, 1053, 40000]);
    if self_referrals {
        knobs.upstream_fault_kinds = vec!["referral_to_self_with_glue".into()];
        knobs.faults.insert("upstream.fault".into(), *r.pick(&[0.2, 0.5]));
    }
    if r.chance(0.15) {
        knobs.mode = "forwarding".into();
    }
    let u = universe::generate(&mut r, &opts);
    let nq = r.range(1, 6) as usize;
    // never ask for a name-server host's own address (see DESIGN 4.10)
    let ns_hosts: Vec<String> = u.zones.iter().flat_map(|z| z.ns.clone()).collect();
    let qs: Vec<(String, String)> = universe::interesting_questions(&u, &mut r, nq * 3)
        .into_iter()
        .filter(|(n, _)| !ns_hosts.iter().any(|h| universe::names_equal(h, n)))
        .take(nq)
        .collect();
    let small_cache = knobs.cache_size < 512;
    let mut questions: Vec<QuestionPlan> = qs
        .into_iter()
        .map(|(name, qtype)| QuestionPlan {
            gap_ms: *r.pick(&GAPS),
            name,
            qtype,
            recursive: true,
            prune_before: small_cache && r.chance(0.5),
        })
        .collect();
    if questions.is_empty() {
        questions.push(QuestionPlan {
            gap_ms: 0,
            name: "nonexistent.com.".into(),
            qtype: "A".into(),
            recursive: true,
            prune_before: false,
        });
    }
    // now and then the process is held up between two clock reads (fault `clock.stall`;
    // own random stream, the rest of the plan stays what it was)
    if Rng::new(seed ^ 0xc10c_57a1_0000).chance(0.25) {
        knobs.faults.insert("clock.stall".into(), 0.02);
    }
    ResolvePlan {
        knobs,
        hints_auto: true,
        local: Vec::new(),
        universe: u,
        cache_preload: Vec::new(),
        questions,
    }
}

fn oracle_c18(plan: &ResolvePlan, obs: &Observations) -> RunResult {
    const SEC: u64 = 1_000_000_000;
    let mut res = base_result(obs);
    let mode = plan.knobs.protocol_mode.as_str();
    let forwarding = plan.knobs.mode == "forwarding";
    let forwarder: std::net::SocketAddr = resolve_engine::FORWARDER.parse().unwrap();
    let local = resolve_engine::effective_local(plan);
    // address -> host
    let mut host_of: BTreeMap<std::net::IpAddr, String> = BTreeMap::new();
    for z in &plan.universe.zones {
        for h in &z.ns {
            for ip in plan.universe.host_ips(h) {
                host_of.insert(ip, h.clone());
            }
        }
    }
    for d in &obs.dests {
        if forwarding {
            if d.addr != forwarder {
                res.violations.push(
                    Violation::new("c18.not_the_forwarder")
                        .detail(json!({"dest": d.addr.to_string(), "ctx": d.ctx, "proto": d.proto})),
                );
            }
            continue;
        }
        if d.addr.port() != plan.knobs.upstream_port {
            res.violations.push(Violation::new("c18.wrong_port").detail(json!({
                "dest": d.addr.to_string(), "configured_port": plan.knobs.upstream_port, "ctx": d.ctx
            })));
        }
        let v4 = d.addr.is_ipv4();
        if (mode == "only-v4" && !v4) || (mode == "only-v6" && v4) {
            res.violations.push(
                Violation::new("c18.wrong_family")
                    .fact("mode", mode)
                    .detail(json!({"dest": d.addr.to_string(), "ctx": d.ctx, "proto": d.proto})),
            );
        }
    }
    if !forwarding && (mode == "prefer-v4" || mode == "prefer-v6") {
        let pref_v4 = mode == "prefer-v4";
        let pref_type = if pref_v4 { "A" } else { "AAAA" };
        for e in &obs.exchanges {
            let hit = e.acceptable()
                && e.reply.as_ref().is_some_and(|m| {
                    m.answers.iter().any(|a| {
                        a.ttl == 0
                            && host_of.values().any(|h| universe::names_equal(h, &a.name.to_dotted_string()))
                            && crate::util::show_data(&a.rtype_with_data).starts_with(&format!("{pref_type} "))
                    })
                });
            if hit {
                bump(&mut res.stats, "probe.preferred_family_ttl0_address_of_a_name_server_looked_up");
            }
        }
        for (i, t) in obs.trace.iter().enumerate() {
            let is_pref = t.ip.is_ipv4() == pref_v4;
            bump(&mut res.stats, if is_pref { "probe.contacted_preferred_family" } else { "probe.contacted_other_family" });
            if is_pref {
                continue;
            }
            let Some(host) = host_of.get(&t.ip) else { continue };
            // does local data or the cache hold a preferred-family address for the host right now?
            let in_cache = obs.trace_cache.get(i).is_some_and(|snap| {
                snap.iter().any(|c| {
                    c.remaining_ns >= SEC
                        && universe::names_equal(&c.rr.name.to_dotted_string(), host)
                        && crate::util::show_data(&c.rr.rtype_with_data).starts_with(&format!("{pref_type} "))
                })
            });
            let in_local = local.iter().any(|z| {
                z.records
                    .iter()
                    .any(|r| !r.wild && universe::names_equal(&r.owner, host) && r.rtype() == pref_type)
            });
            // ... or did it just look one up (a TTL-0 record is never cached, but it is
            // held for the transaction that asked for it): the latest earlier
            // exchange of this question that asked for the host's preferred-family
            // address was answered with one, and the host has not been contacted since
            let in_hand = {
                let mut found = false;
                for e in obs.exchanges.iter().rev() {
                    if e.ctx != t.ctx || e.at_ms > t.at_ms {
                        continue;
                    }
                    // a contact to this very host ends the search
                    if host_of.get(&e.to.ip()) == Some(host) {
                        break;
                    }
                    let asked = e.request.as_ref().and_then(|m| m.questions.first()).is_some_and(|q| {
                        universe::names_equal(&q.name.to_dotted_string(), host) && show_qtype(q.qtype) == pref_type
                    });
                    if asked && e.acceptable() {
                        found = e.reply.as_ref().is_some_and(|m| {
                            m.answers.iter().any(|a| {
                                a.ttl == 0
                                    && universe::names_equal(&a.name.to_dotted_string(), host)
                                    && crate::util::show_data(&a.rtype_with_data).starts_with(&format!("{pref_type} "))
                            })
                        });
                        break;
                    }
                }
                found
            };
            // measured, not judged (DESIGN.md 9.6, open question): is a preferred-family
            // address held for ANOTHER name server of a zone this host serves?
            if !(in_cache || in_local || in_hand) {
                let sibling_held = plan.universe.zones.iter().filter(|z| z.ns.iter().any(|h| universe::names_equal(h, host))).any(|z| {
                    z.ns.iter().filter(|h| !universe::names_equal(h, host)).any(|h2| {
                        obs.trace_cache.get(i).is_some_and(|snap| {
                            snap.iter().any(|c| {
                                c.remaining_ns >= SEC
                                    && universe::names_equal(&c.rr.name.to_dotted_string(), h2)
                                    && crate::util::show_data(&c.rr.rtype_with_data).starts_with(&format!("{pref_type} "))
                            })
                        }) || local.iter().any(|z| {
                            z.records.iter().any(|r| !r.wild && universe::names_equal(&r.owner, h2) && r.rtype() == pref_type)
                        })
                    })
                });
                if sibling_held {
                    bump(&mut res.stats, "probe.other_family_contacted_while_preferred_held_for_a_sibling_server");
                }
                // the same, narrowed to the delegation of this very step: the zone
                // whose apex has `match_count` labels and encloses the question name
                let qname = t.question.split_whitespace().next().unwrap_or("");
                let exact = plan.universe.zones.iter().filter(|z| {
                    universe::labels(&z.apex) == t.match_count
                        && universe::under(qname, &z.apex)
                        && z.ns.iter().any(|h| universe::names_equal(h, host))
                }).any(|z| {
                    z.ns.iter().filter(|h| !universe::names_equal(h, host)).any(|h2| {
                        obs.trace_cache.get(i).is_some_and(|snap| {
                            snap.iter().any(|c| {
                                c.remaining_ns >= SEC
                                    && universe::names_equal(&c.rr.name.to_dotted_string(), h2)
                                    && crate::util::show_data(&c.rr.rtype_with_data).starts_with(&format!("{pref_type} "))
                            })
                        }) || local.iter().any(|z| {
                            z.records.iter().any(|r| !r.wild && universe::names_equal(&r.owner, h2) && r.rtype() == pref_type)
                        })
                    })
                });
                if exact {
                    bump(&mut res.stats, "probe.other_family_contacted_while_preferred_held_for_a_sibling_of_this_delegation");
                    // ... and no server had been contacted at a preferred-family address
                    // for this question before (so no sibling had been tried and failed)
                    let tried_before = obs.trace[..i].iter().any(|p| {
                        p.ctx == t.ctx && p.question == t.question && p.ip.is_ipv4() == pref_v4
                    });
                    if !tried_before {
                        bump(&mut res.stats, "probe.other_family_contacted_first_while_preferred_held_for_a_sibling_of_this_delegation");
                    }
                }
            }
            if in_cache || in_local || in_hand {
                res.violations.push(
                    Violation::new("c18.non_preferred_family_despite_held_address")
                        .fact("mode", mode)
                        .fact("held_in", if in_local { "local" } else if in_cache { "cache" } else { "lookup" })
                        .detail(json!({
                            "host": host, "contacted": t.ip.to_string(), "question": t.question, "ctx": t.ctx
                        })),
                );
            }
        }
        // lookups of a server's address try the preferred family first: per
        // (context, host, local/recursive) every non-preferred attempt must be
        // matched by an earlier preferred attempt (calls nest, so count)
        let other_type = if pref_v4 { "AAAA" } else { "A" };
        let mut balance: BTreeMap<(String, String, bool), i64> = BTreeMap::new();
        for a in &obs.address_lookups {
            let mut parts = a.question.split(' ');
            let name = parts.next().unwrap_or("").to_ascii_lowercase();
            let ty = parts.next_back().unwrap_or("");
            let key = (a.ctx.clone(), name.clone(), a.locally);
            let b = balance.entry(key).or_insert(0);
            if ty == pref_type {
                *b += 1;
            } else if ty == other_type {
                *b -= 1;
                bump(&mut res.stats, "probe.address_lookup_fell_back_to_other_family");
                if *b < 0 {
                    res.violations.push(
                        Violation::new("c18.address_lookup_wrong_family_first")
                            .fact("mode", mode)
                            .detail(json!({"host": name, "tried": ty, "ctx": a.ctx, "locally": a.locally})),
                    );
                }
            }
        }
    }
    let families: std::collections::BTreeSet<bool> = obs.dests.iter().map(|d| d.addr.is_ipv4()).collect();
    if families.len() == 2 {
        bump(&mut res.stats, "probe.both_families_contacted_in_run");
    }
    res.nontrivial = !obs.dests.is_empty();
    if forwarding {
        bump(&mut res.stats, "probe.forwarding_run");
    }
    bump(&mut res.stats, &format!("probe.mode_{mode}"));
    res.sample = Some(plan_sample(plan));
    res
}

resolve_property!(
    C18,
    "C18",
    "exploration",
    gen_c18,
    oracle_c18,
    60_000,
    1_200_000,
    "universes whose name-server hosts are v4-only, v6-only, dual or mixed, addresses learnt from hints, glue, cache (earlier questions, with expiry) or nested lookup x four protocol modes x random upstream port x recursive or forwarding; predicate over the simulated transport's log of attempted destinations, with the cache snapshotted at every upstream-query trace point. Non-trivial = at least one upstream destination attempted; distinct = distinct (exchange sequence, result classes)",
    [
        "an attempted UDP connect that fails locally (IPv6 peer on the IPv4 wildcard socket) still counts as a destination",
        "'holds an address' = local zone record or cache entry with at least 1 s left at the moment of the upstream query (snapshot via hooks H4/H5)",
        "questions never ask for a name-server host's own address, so address lookups in the log are the resolver's own",
        "a run in which the resolver stalls in the address-lookup storm recorded as a known finding of C08 is counted as inconclusive, not as a verdict on C18"
    ],
    true
);

// ======================================================================= C08

pub struct C08;

const C08_SWEEP_UNIVERSES: u64 = 6;
const C08_SWEEP_POSITIONS: u64 = 8;

fn c08_sweep_len() -> u64 {
    crate::netactors::FAULT_KINDS.len() as u64 * C08_SWEEP_POSITIONS * C08_SWEEP_UNIVERSES * 2
}

fn gen_c08(seed: u64, index: u64, tier: Tier) -> ResolvePlan {
    let kinds = crate::netactors::FAULT_KINDS;
    if index < c08_sweep_len() {
        // deterministic sweep: each fault kind alone at each exchange position
        let mut i = index;
        let kind = kinds[usize::try_from(i % kinds.len() as u64).unwrap()];
        i /= kinds.len() as u64;
        let pos = i % C08_SWEEP_POSITIONS;
        i /= C08_SWEEP_POSITIONS;
        let uni = i % C08_SWEEP_UNIVERSES;
        i /= C08_SWEEP_UNIVERSES;
        let forwarding = i % 2 == 1;
        let mut r = Rng::new(0xC08_0000 + uni);
        let opts = GenOpts {
            max_depth: 3,
            max_zones: 7,
            out_of_zone_ns: true,
            ttl_choices: vec![300],
            ..GenOpts::default()
        };
        let u = universe::generate(&mut r, &opts);
        let mut knobs = Knobs::default();
        if forwarding {
            knobs.mode = "forwarding".into();
        }
        knobs.forced_faults = vec![crate::netactors::ForcedFault {
            exchange: format!("q0.x{pos}"),
            kind: kind.to_string(),
        }];
        // a deep question, so that the position exists
        let deepest = u
            .zones
            .iter()
            .max_by_key(|z| universe::labels(&z.apex))
            .map_or(".".to_string(), |z| z.apex.clone());
        let questions = vec![
            QuestionPlan {
                gap_ms: 0,
                name: universe::child_name("www", &deepest),
                qtype: "A".into(),
                recursive: true,
                prune_before: false,
            },
            QuestionPlan {
                gap_ms: 1000,
                name: universe::child_name("alias0", &deepest),
                qtype: "TXT".into(),
                recursive: true,
                prune_before: false,
            },
        ];
        return ResolvePlan {
            knobs,
            hints_auto: true,
            local: Vec::new(),
            universe: u,
            cache_preload: Vec::new(),
            questions,
        };
    }
    let mut r = Rng::new(seed);
    let mut knobs = random_benign_knobs(&mut r);
    let opts = GenOpts {
        max_depth: match tier {
            Tier::Quick => r.range(1, 3),
            Tier::Thorough => r.range(1, 4),
        },
        max_zones: r.range(3, 9) as usize,
        family_profile: *r.pick(&[0u8, 0, 2, 3]),
        multi_address_hosts: r.chance(0.2),
        out_of_zone_ns: r.chance(0.7),
        ttl_choices: r.pick(&[&[300u32][..], &[5, 300], &[1, 5, 3600]]).to_vec(),
        ..GenOpts::default()
    };
    knobs.protocol_mode = (*r.pick(&["only-v4", "only-v4", "prefer-v4", "prefer-v6"])).to_string();
    if r.chance(0.25) {
        knobs.mode = "forwarding".into();
    }
    // swarm: a random subset of fault kinds, random rates
    let n_kinds = r.range(1, kinds.len() as u64) as usize;
    let mut all: Vec<&str> = kinds.to_vec();
    r.shuffle(&mut all);
    knobs.upstream_fault_kinds = all.into_iter().take(n_kinds).map(String::from).collect();
    knobs.faults.insert("upstream.fault".into(), *r.pick(&[0.05, 0.2, 0.5, 1.0]));
    knobs.faults.insert("udp.fate".into(), *r.pick(&[0.0, 0.05, 0.3]));
    knobs.faults.insert("tcp.connect".into(), *r.pick(&[0.0, 0.1, 0.5]));
    knobs.faults.insert("udp.bind_error".into(), *r.pick(&[0.0, 0.0, 0.05, 0.3]));
    let max_extra = *r.pick(&[0u64, 49, 499, 6999, 69_999]);
    knobs.params.insert("net.latency.max_extra_ms".into(), max_extra);
    knobs.faults.insert("udp.delay".into(), *r.pick(&[0.0, 0.1, 0.7]));
    knobs.faults.insert("tcp.delay".into(), *r.pick(&[0.0, 0.1, 0.7]));
    let u = universe::generate(&mut r, &opts);
    let nq = r.range(1, 4) as usize;
    let qs = universe::interesting_questions(&u, &mut r, nq);
    let questions = qs
        .into_iter()
        .map(|(name, qtype)| QuestionPlan {
            gap_ms: *r.pick(&GAPS),
            name,
            qtype,
            recursive: true,
            prune_before: r.chance(0.2),
        })
        .collect();
    // now and then the process is held up between two clock reads (fault `clock.stall`;
    // own random stream, the rest of the plan stays what it was)
    if Rng::new(seed ^ 0xc10c_57a1_0000).chance(0.25) {
        knobs.faults.insert("clock.stall".into(), 0.02);
    }
    ResolvePlan {
        knobs,
        hints_auto: true,
        local: Vec::new(),
        universe: u,
        cache_preload: Vec::new(),
        questions,
    }
}

/// Everything that was supplied to the resolver: local data, plus every
/// record of every message that reached it (as received).
pub fn supplied_records(plan: &ResolvePlan, obs: &Observations) -> BTreeMap<(String, String), u32> {
    let mut out: BTreeMap<(String, String), u32> = BTreeMap::new();
    let mut add = |rr: &ResourceRecord| {
        let e = out.entry(rr_key(rr)).or_insert(0);
        *e = (*e).max(rr.ttl);
    };
    for z in resolve_engine::effective_local(plan) {
        for r in &z.records {
            add(&r.to_rr());
        }
        if let Some(soa) = &z.soa {
            add(&universe::Rec::new(&z.apex, soa, u32::MAX).to_rr());
        }
    }
    for r in &plan.cache_preload {
        add(&r.to_rr());
    }
    let mut add_msg = |m: &Message| {
        for rr in m.answers.iter().chain(m.authority.iter()).chain(m.additional.iter()) {
            add(rr);
        }
    };
    for (_, bytes) in &obs.recv_log {
        // what the datagram itself says, not what a larger buffer around it
        // may complete it to
        let n = bytes.len().min(512);
        if let Ok(m) = Message::from_octets(&bytes[..n]) {
            add_msg(&m);
        }
    }
    for e in &obs.exchanges {
        if e.proto == "tcp" {
            if let Some(m) = &e.reply {
                add_msg(m);
            }
        }
    }
    out
}

fn oracle_c08(plan: &ResolvePlan, obs: &Observations) -> RunResult {
    let mut res = base_result(obs);
    let supplied = supplied_records(plan, obs);
    for q in &obs.questions {
        if q.elapsed_ms > 60_010 {
            res.violations.push(Violation::new("c08.over_60s").detail(json!({
                "q": qfacts(q), "exchanges": exchange_summary(obs, q)
            })));
        }
        for life in &obs.lives[q.lives.clone()] {
            match life.closed_ms {
                None => res.violations.push(
                    Violation::new("c08.transport_attempt_still_open")
                        .fact("proto", life.proto)
                        .detail(json!({"socket": life.label, "opened_ms": life.opened_ms, "q": qfacts(q)})),
                ),
                Some(c) => {
                    let d = c - life.opened_ms;
                    if d > 5_010 {
                        res.violations.push(
                            Violation::new("c08.transport_attempt_over_5s")
                                .fact("proto", life.proto)
                                .detail(json!({"socket": life.label, "duration_ms": d, "q": qfacts(q)})),
                        );
                    }
                    if d >= 5_000 {
                        bump(&mut res.stats, &format!("probe.timeout_5s_{}", life.proto));
                    }
                }
            }
        }
        let returned: Vec<ResourceRecord> = match &q.result {
            Ok(ResolvedRecord::NonAuthoritative { rrs, soa_rr }) => {
                rrs.iter().cloned().chain(soa_rr.iter().cloned()).collect()
            }
            Ok(ResolvedRecord::Authoritative { rrs, soa_rr }) => {
                rrs.iter().cloned().chain(std::iter::once(soa_rr.clone())).collect()
            }
            Ok(ResolvedRecord::AuthoritativeNameError { soa_rr }) => vec![soa_rr.clone()],
            Ok(ResolvedRecord::Referral { ns_rrs }) => ns_rrs.clone(),
            Err(e) => {
                match e {
                    ResolutionError::Timeout => bump(&mut res.stats, "probe.timeout_60s"),
                    ResolutionError::RecursionLimit => bump(&mut res.stats, "probe.recursion_limit"),
                    ResolutionError::DuplicateQuestion { .. } => bump(&mut res.stats, "probe.duplicate_question"),
                    ResolutionError::DeadEnd { .. } => bump(&mut res.stats, "probe.dead_end"),
                    _ => bump(&mut res.stats, "probe.other_error"),
                }
                Vec::new()
            }
        };
        if q.result.is_ok() {
            bump(&mut res.stats, "probe.answered_despite_faults");
        }
        for rr in &returned {
            match supplied.get(&rr_key(rr)) {
                Some(ttl) if rr.ttl <= *ttl => {}
                Some(ttl) => res.violations.push(Violation::new("c08.ttl_above_supplied").detail(json!({
                    "record": show_rr(rr), "supplied_ttl": ttl, "q": qfacts(q)
                }))),
                None => res.violations.push(Violation::new("c08.record_nobody_supplied").detail(json!({
                    "record": show_rr(rr), "q": qfacts(q), "exchanges": exchange_summary(obs, q)
                }))),
            }
        }
    }
    let faulted = obs.exchanges.iter().any(|e| e.fault != "none")
        || obs.taken.iter().any(|d| d.site == "udp.fate" || d.site == "tcp.connect");
    res.nontrivial = !obs.exchanges.is_empty() && faulted;
    res.sample = Some(plan_sample(plan));
    res
}

resolve_property!(
    C08,
    "C08",
    "fault_enumeration",
    gen_c08,
    oracle_c08,
    60_000,
    1_000_000,
    "first a deterministic sweep - each of 35 upstream fault kinds (silence, delays around 5 s and up to 70 s, garbage, compression-pointer games, truncation, wrong ID/QR/opcode/question, TC, error rcodes, empty, lame/unresolvable/self/fake-deeper/glue-less-alias-name-server referrals, referrals in the answer section, alias loops (through the question name, self-loops, lassos) and streams, TTL 0, oversize, TCP refuse/black hole/reset/early EOF/bad length) alone at each of 8 exchange positions of 6 universes in recursive and forwarding mode (3360 runs) - then random runs: random subsets of those kinds at random rates on every exchange incl. nested name-server lookups, plus datagram drop/duplicate/corrupt/truncate, connect refuse/black-hole, failures to open a socket, latencies up to 70 s. Oracle: resolve() completes, <= 60 s virtual, every UDP socket and TCP attempt lives <= 5 s, no panic, no stall, every returned record was supplied by local data or by the bytes of a message that reached the resolver. Non-trivial = at least one exchange and at least one fault fired; distinct = distinct (exchange sequence, faults, result classes)",
    [
        "while faults flow only termination, time bounds, panic-freedom and provenance are judged - any answer or error is acceptable",
        "a spin that makes no virtual-time progress is detected as a stall after 1,000,000 clock reads at one instant (deterministic), backed by a 30 s real-time watchdog",
        "tokio's paused clock and timer wheel are trusted (10 ms tolerance on bounds)"
    ]
);

// ======================================================================= C10

pub struct C10;

pub const AUTH_APEX: &str = "loc.test.";
pub const AUTH_SOA: &str = "SOA ns.loc.test. admin.loc.test. 1 3600 600 86400 300";

/// Why a returned record list is not "aliases in chain order from the
/// question name, then only records of the asked type at the final target".
pub fn chain_shape_error(qname: &str, qtype: QueryType, rrs: &[ResourceRecord]) -> Option<String> {
    let mut expect_owner = qname.to_ascii_lowercase();
    let mut seen_owners: Vec<String> = Vec::new();
    let mut i = 0;
    while i < rrs.len() {
        if let RecordTypeWithData::CNAME { cname } = &rrs[i].rtype_with_data {
            let owner = rrs[i].name.to_dotted_string().to_ascii_lowercase();
            if owner != expect_owner {
                return Some(format!(
                    "alias #{i} is owned by {owner}, expected {expect_owner} (the previous target)"
                ));
            }
            if seen_owners.contains(&owner) {
                return Some(format!("alias owner {owner} appears twice"));
            }
            seen_owners.push(owner);
            expect_owner = cname.to_dotted_string().to_ascii_lowercase();
            i += 1;
        } else {
            break;
        }
    }
    let mut finals: Vec<(String, String)> = Vec::new();
    for rr in &rrs[i..] {
        if matches!(rr.rtype_with_data, RecordTypeWithData::CNAME { .. }) {
            return Some(format!("alias {} after the final records began", show_rr(rr)));
        }
        if !rr.rtype_with_data.matches(qtype) {
            return Some(format!("{} is not of the asked type", show_rr(rr)));
        }
        let owner = rr.name.to_dotted_string().to_ascii_lowercase();
        if owner != expect_owner {
            return Some(format!(
                "{} is not owned by the final target {expect_owner}",
                show_rr(rr)
            ));
        }
        let k = rr_key(rr);
        if finals.contains(&k) {
            return Some(format!("{} appears twice", show_rr(rr)));
        }
        finals.push(k);
    }
    None
}

/// Like `chain_shape_error` but only about how the aliases link up: every
/// alias starts where the previous one pointed, and the final records sit at
/// the last target.  Duplicates are not its business.
pub fn alias_linkage_error(qname: &str, rrs: &[ResourceRecord]) -> Option<String> {
    let mut expect_owner = qname.to_ascii_lowercase();
    let mut i = 0;
    while i < rrs.len() {
        if let RecordTypeWithData::CNAME { cname } = &rrs[i].rtype_with_data {
            let owner = rrs[i].name.to_dotted_string().to_ascii_lowercase();
            if owner != expect_owner {
                return Some(format!(
                    "alias {} does not start at {expect_owner}, where the previous one pointed",
                    show_rr(&rrs[i])
                ));
            }
            expect_owner = cname.to_dotted_string().to_ascii_lowercase();
            i += 1;
        } else {
            break;
        }
    }
    for rr in &rrs[i..] {
        if matches!(rr.rtype_with_data, RecordTypeWithData::CNAME { .. }) {
            continue;
        }
        let owner = rr.name.to_dotted_string().to_ascii_lowercase();
        if owner != expect_owner {
            return Some(format!("{} is not at the end of the alias path ({expect_owner})", show_rr(rr)));
        }
    }
    None
}

fn gen_c10(seed: u64, _index: u64, tier: Tier) -> ResolvePlan {
    let mut r = Rng::new(seed);
    let mut knobs = random_benign_knobs(&mut r);
    knobs.cache_size = 512;
    knobs.server.shuffle_answers = r.chance(0.3);
    let mode = *r.pick(&["recursive", "recursive", "forwarding", "authoritative"]);
    // decoy aliases from a byzantine upstream, in recursive mode only (the
    // forwarder is documented as trusted: its answer is relayed as it is)
    if mode == "recursive" && r.chance(0.3) {
        knobs.upstream_fault_kinds = vec![
            "ans_cname_fan_first".into(),
            "ans_cname_fan".into(),
            "ans_offpath_cname".into(),
            "alias_through_local".into(),
        ];
        knobs.faults.insert("upstream.fault".into(), *r.pick(&[0.3, 1.0]));
    }
    if mode == "forwarding" {
        knobs.mode = "forwarding".into();
    }
    let opts = GenOpts {
        max_depth: 2,
        max_zones: r.range(3, 5) as usize,
        wildcards: false,
        cross_zone_cnames: false,
        ttl_choices: vec![3600],
        ..GenOpts::default()
    };
    let mut u = universe::generate(&mut r, &opts);
    let up_zones: Vec<usize> = (1..u.zones.len()).collect();

    let len = match r.below(10) {
        0 => 0,
        1..=5 => r.range(1, 6),
        6 => r.range(7, 25),
        7 => r.range(30, 34),
        _ => match tier {
            Tier::Quick => r.range(26, 36),
            Tier::Thorough => r.range(26, 40),
        },
    } as usize;
    let sources: Vec<&str> = if mode == "authoritative" {
        vec!["auth", "nonauth", "cache"]
    } else {
        vec!["auth", "nonauth", "cache", "upstream", "upstream"]
    };
    // runs of one source are more interesting than pure noise
    let mut src_of: Vec<&str> = Vec::new();
    let mut cur = *r.pick(&sources);
    for _ in 0..=len {
        if r.chance(0.4) {
            cur = *r.pick(&sources);
        }
        src_of.push(cur);
    }
    // some local links are wildcard aliases, matched one to three labels down
    let wild_below = |r: &mut Rng| -> Option<&'static str> {
        if r.chance(0.2) {
            Some(*r.pick(&["x", "x.y", "x.y", "x.y.z"]))
        } else {
            None
        }
    };
    let name_of = |i: usize, src: &str, r: &mut Rng, u: &Universe| -> String {
        match src {
            "auth" => match wild_below(r) {
                Some(below) => format!("{below}.w{i}.{AUTH_APEX}"),
                None => format!("c{i}.{AUTH_APEX}"),
            },
            "nonauth" => match wild_below(r) {
                Some(below) => format!("{below}.w{i}.over.test."),
                None => format!("c{i}.over.test."),
            },
            "cache" => format!("c{i}.cached.test."),
            _ => {
                let z = *r.pick(&up_zones);
                universe::child_name(&format!("c{i}"), &u.zones[z].apex)
            }
        }
    };
    let names: Vec<String> = (0..=len).map(|i| name_of(i, src_of[i], &mut r, &u)).collect();
    let cycle_to: Option<usize> = if len > 0 && r.chance(0.25) {
        Some(r.below(len as u64 + 1) as usize)
    } else {
        None
    };
    let qtype = *r.pick(&["A", "A", "TXT", "MX", "AAAA"]);
    let final_data: Vec<String> = match r.below(4) {
        0 => Vec::new(),
        _ => match qtype {
            "A" => vec!["A 192.0.2.1".into(), "A 192.0.2.2".into()],
            "AAAA" => vec!["AAAA 2001:db8::1".into()],
            "TXT" => vec!["TXT final".into()],
            _ => vec!["MX 5 mx.final.test.".into()],
        },
    };

    let mut auth = LocalZone {
        apex: AUTH_APEX.into(),
        soa: Some(AUTH_SOA.into()),
        records: Vec::new(),
    };
    let mut nonauth = LocalZone {
        apex: ".".into(),
        soa: None,
        records: Vec::new(),
    };
    let mut preload: Vec<universe::Rec> = Vec::new();
    let mut put = |src: &str, rec: universe::Rec, u: &mut Universe| match src {
        "auth" => auth.records.push(rec),
        "nonauth" => nonauth.records.push(rec),
        "cache" => preload.push(rec),
        _ => {
            let z = u.zone_owning(&rec.owner);
            u.zones[z].records.push(rec);
        }
    };
    let decoys: Vec<bool> = (0..=len).map(|_| r.chance(0.2)).collect();
    for i in 0..=len {
        let target: Option<String> = if i < len {
            Some(names[i + 1].clone())
        } else {
            cycle_to.map(|j| names[j].clone())
        };
        // `x.y.w3.<apex>` is matched by the wildcard `*.w3.<apex>`
        let wild_owner: Option<String> = {
            let mut n = names[i].clone();
            let mut found = None;
            while let Some(p) = universe::parent(&n) {
                if n.starts_with(&format!("w{i}.")) {
                    found = Some(n.clone());
                    break;
                }
                n = p;
            }
            found.filter(|_| matches!(src_of[i], "auth" | "nonauth") && !names[i].starts_with(&format!("w{i}.")))
        };
        let rec = |data: &str| match &wild_owner {
            Some(o) => universe::Rec {
                wild: true,
                ..universe::Rec::new(o, data, 3600)
            },
            None => universe::Rec::new(&names[i], data, 3600),
        };
        match target {
            Some(t) => {
                put(src_of[i], rec(&format!("CNAME {t}")), &mut u);
                // an alias that was re-pointed upstream while its old record is still
                // cached: two aliases under one owner, the first one is followed
                if src_of[i] == "cache" && decoys[i] {
                    put("cache", universe::Rec::new(&names[i], &format!("CNAME old{i}.cached.test."), 3600), &mut u);
                }
            }
            None => {
                for d in &final_data {
                    put(src_of[i], rec(d), &mut u);
                }
            }
        }
    }
    drop(put);
    // a second way into the chain (a branch)
    let has_branch = len > 1 && r.chance(0.2);
    if has_branch {
        nonauth
            .records
            .push(universe::Rec::new("branch.over.test.", &format!("CNAME {}", names[1]), 3600));
    }

    let recursive = mode != "authoritative";
    let mut questions = vec![QuestionPlan {
        gap_ms: 0,
        name: names[0].clone(),
        qtype: qtype.into(),
        recursive,
        prune_before: false,
    }];
    if r.chance(0.5) {
        // again (the cache now holds the upstream links), or from the middle
        let start = if r.chance(0.5) { 0 } else { r.below(len as u64 + 1) as usize };
        questions.push(QuestionPlan {
            gap_ms: *r.pick(&[0u64, 10, 1000]),
            name: names[start].clone(),
            qtype: (*r.pick(&[qtype, "A", "TXT"])).into(),
            recursive,
            prune_before: false,
        });
    }
    if has_branch && r.chance(0.7) {
        questions.push(QuestionPlan {
            gap_ms: 0,
            name: "branch.over.test.".into(),
            qtype: qtype.into(),
            recursive,
            prune_before: false,
        });
    }
    // names local data speaks for: targets for aliases a byzantine upstream sends
    knobs.local_targets = names
        .iter()
        .zip(src_of.iter())
        .filter(|(_, s)| matches!(**s, "auth" | "nonauth"))
        .map(|(n, _)| n.clone())
        .collect();
    // now and then the process is held up between two clock reads (fault `clock.stall`;
    // own random stream, the rest of the plan stays what it was)
    if Rng::new(seed ^ 0xc10c_57a1_0000).chance(0.25) {
        knobs.faults.insert("clock.stall".into(), 0.02);
    }
    ResolvePlan {
        knobs,
        hints_auto: true,
        local: vec![auth, nonauth],
        universe: u,
        cache_preload: preload,
        questions,
    }
}

/// The chain as the plan defines it, looked up source by source.
fn reference_chain(plan: &ResolvePlan, qname: &str) -> (Vec<(String, String)>, Option<String>, bool) {
    // (owner, target) links; final name; cyclic?
    let mut links: BTreeMap<String, String> = BTreeMap::new();
    // wildcard aliases of local zones: (the wildcard's parent, target)
    let mut wild_links: Vec<(String, String)> = Vec::new();
    let mut add = |rec: &universe::Rec| {
        if rec.rtype() == "CNAME" && !rec.wild {
            links
                .entry(rec.owner.to_ascii_lowercase())
                .or_insert_with(|| rec.rdata().to_ascii_lowercase());
        } else if rec.rtype() == "CNAME" {
            wild_links.push((rec.owner.to_ascii_lowercase(), rec.rdata().to_ascii_lowercase()));
        }
    };
    for z in &plan.local {
        z.records.iter().for_each(&mut add);
    }
    plan.cache_preload.iter().for_each(&mut add);
    for z in &plan.universe.zones {
        z.records.iter().for_each(&mut add);
    }
    let mut chain = Vec::new();
    let mut name = qname.to_ascii_lowercase();
    let mut seen = vec![name.clone()];
    loop {
        // the generator puts nothing else beneath a wildcard's parent
        let t = match links.get(&name) {
            Some(t) => t.clone(),
            None => match wild_links
                .iter()
                .find(|(o, _)| name.len() > o.len() && name.ends_with(&format!(".{o}")))
            {
                Some((_, t)) => t.clone(),
                None => break,
            },
        };
        let t = &t;
        chain.push((name.clone(), t.clone()));
        if seen.contains(t) {
            return (chain, None, true);
        }
        seen.push(t.clone());
        name = t.clone();
    }
    (chain, Some(name), false)
}

/// Chains up to this many links must come back whole: the implementation's own
/// recursion limit (a constant of `/repo`, 32 today) less the questions the
/// resolution needs besides the aliases.
fn whole_up_to() -> usize {
    dns_resolver::RECURSION_LIMIT.saturating_sub(7)
}

fn oracle_c10(plan: &ResolvePlan, obs: &Observations) -> RunResult {
    let mut res = base_result(obs);
    for q in &obs.questions {
        let qname = q.question.name.to_dotted_string();
        if matches!(
            q.question.qtype,
            QueryType::Wildcard | QueryType::Record(RecordType::CNAME)
        ) {
            continue;
        }
        let (ref_chain, _final, cyclic) = reference_chain(plan, &qname);
        bump(&mut res.stats, &format!("probe.chain_len_{}", match ref_chain.len() {
            0 => "0",
            1..=6 => "1_6",
            7..=25 => "7_25",
            26..=31 => "26_31",
            32..=34 => "32_34",
            _ => "35_plus",
        }));
        if cyclic {
            bump(&mut res.stats, "probe.cycle_entered");
        }
        if q.elapsed_ms > 60_010 {
            res.violations.push(Violation::new("c10.over_60s").detail(json!({"q": qfacts(q)})));
        }
        let rrs: Vec<ResourceRecord> = match &q.result {
            Ok(ResolvedRecord::NonAuthoritative { rrs, .. } | ResolvedRecord::Authoritative { rrs, .. }) => rrs.clone(),
            Ok(ResolvedRecord::AuthoritativeNameError { .. } | ResolvedRecord::Referral { .. }) => Vec::new(),
            Err(e) => {
                match e {
                    ResolutionError::RecursionLimit => bump(&mut res.stats, "probe.recursion_limit"),
                    ResolutionError::DuplicateQuestion { .. } => bump(&mut res.stats, "probe.duplicate_question"),
                    _ => bump(&mut res.stats, "probe.other_error"),
                }
                // an error is acceptable for loops and over-long chains only
                // (and, without recursion, for a name nothing local knows)
                let nothing_local = !q.recursive && ref_chain.is_empty();
                let byzantine = !plan.knobs.upstream_fault_kinds.is_empty();
                if !cyclic && !nothing_local && !byzantine && ref_chain.len() <= whole_up_to() {
                    let dead = depends_on_dead_delegation(plan, obs, q);
                    res.violations.push(
                        Violation::new("c10.short_chain_failed")
                            .fact("dead_delegation_in_cache", dead)
                            .detail(json!({
                                "q": qfacts(q), "reference_chain": ref_chain,
                                "exchanges": exchange_summary(obs, q)
                            })),
                    );
                }
                continue;
            }
        };
        if let Some(why) = chain_shape_error(&qname, q.question.qtype, &rrs) {
            // did some upstream reply itself list its answer out of chain order?
            let upstream_order = obs.exchanges[q.exchanges.clone()].iter().any(|e| {
                match (&e.request, &e.reply) {
                    (Some(rq), Some(m)) if !rq.questions.is_empty() => chain_shape_error(
                        &rq.questions[0].name.to_dotted_string(),
                        rq.questions[0].qtype,
                        &m.answers,
                    )
                    .is_some(),
                    _ => false,
                }
            });
            // an upstream answer that carries an alias *owned by a local
            // authoritative zone* (open finding S9 under C01) shows here as that
            // owner appearing twice: once from the zone, once forged
            let forged_local_alias = rrs.iter().any(|rr| {
                let owner = rr.name.to_dotted_string().to_ascii_lowercase();
                matches!(rr.rtype_with_data, RecordTypeWithData::CNAME { .. })
                    && (owner.ends_with(AUTH_APEX) || owner.ends_with("over.test."))
                    && !plan.local.iter().any(|z| {
                        z.records.iter().any(|l| {
                            universe::names_equal(&l.owner, &rr.name.to_dotted_string())
                                && crate::util::parse_data(&l.data) == rr.rtype_with_data
                        })
                    })
                    // ... and it did arrive in an upstream reply of this resolution
                    && obs.exchanges[q.exchanges.clone()].iter().any(|e| {
                        e.reply
                            .as_ref()
                            .is_some_and(|m| m.answers.iter().any(|a| same_record(a, rr)))
                    })
            });
            // a loop re-entered in the middle of a multi-link upstream reply: the
            // repeated owner's alias arrived in a reply to a question about
            // another name, so no question was ever pushed for it a second time
            let mut owners_seen: Vec<DomainName> = Vec::new();
            let mut repeated: Vec<DomainName> = Vec::new();
            for rr in &rrs {
                if matches!(rr.rtype_with_data, RecordTypeWithData::CNAME { .. }) {
                    if owners_seen.contains(&rr.name) {
                        repeated.push(rr.name.clone());
                    }
                    owners_seen.push(rr.name.clone());
                }
            }
            let reentered_inside_reply = !repeated.is_empty()
                && repeated.iter().all(|x| {
                    obs.exchanges[q.exchanges.clone()].iter().any(|e| {
                        let asked_other = e
                            .request
                            .as_ref()
                            .and_then(|m| m.questions.first())
                            .is_some_and(|qq| qq.name != *x);
                        asked_other
                            && e.reply.as_ref().is_some_and(|m| {
                                m.answers.iter().any(|a| {
                                    a.name == *x && matches!(a.rtype_with_data, RecordTypeWithData::CNAME { .. })
                                })
                            })
                    })
                });
            res.violations.push(
                Violation::new("c10.chain_shape")
                    .fact("mode", plan.knobs.mode.clone())
                    .fact("loop_reentered_inside_a_multi_link_upstream_reply", reentered_inside_reply)
                    .fact("upstream_alias_for_locally_owned_name", forged_local_alias)
                    .fact("upstream_reply_out_of_order", upstream_order)
                    .detail(json!({
                        "why": why, "q": qfacts(q), "reference_chain": ref_chain,
                        "exchanges": exchange_summary(obs, q)
                    })),
            );
            continue;
        }
        // whole: short acyclic chains come back complete
        let got_links: Vec<(String, String)> = rrs
            .iter()
            .filter_map(|rr| match &rr.rtype_with_data {
                RecordTypeWithData::CNAME { cname } => Some((
                    rr.name.to_dotted_string().to_ascii_lowercase(),
                    cname.to_dotted_string().to_ascii_lowercase(),
                )),
                _ => None,
            })
            .collect();
        // forwarding: the forwarder's answer is relayed as it is; what the cache
        // alone knows about a name the forwarder's answer ends at is not consulted
        let is_upstream = |n: &str| {
            !(n.ends_with(AUTH_APEX) || n.ends_with("over.test.") || n.ends_with("cached.test."))
        };
        let acceptable_cut = plan.knobs.mode == "forwarding"
            && !got_links.is_empty()
            && got_links.len() < ref_chain.len()
            && got_links[..] == ref_chain[..got_links.len()]
            && {
                // (only where the next link is known to the cache alone: an alias
                // into zones or hosts data is followed locally, fix ff80b11)
                let (o, t) = &ref_chain[got_links.len() - 1];
                is_upstream(o) && t.ends_with("cached.test.")
            };
        if acceptable_cut {
            bump(&mut res.stats, "probe.forwarder_answer_ended_at_locally_known_name");
        }
        // (decoy aliases from a byzantine upstream change what the chain is:
        // then only the shape is judged)
        let byzantine = !plan.knobs.upstream_fault_kinds.is_empty();
        // a cached owner with two aliases (one re-pointed): which of them a lookup
        // follows is not specified, so only the shape is judged from there on
        let ambiguous = ref_chain.iter().any(|(o, _)| {
            plan.cache_preload
                .iter()
                .filter(|r| r.rtype() == "CNAME" && universe::names_equal(&r.owner, o))
                .count()
                > 1
        });
        if ambiguous {
            bump(&mut res.stats, "probe.chain_through_a_cached_owner_with_two_aliases");
        }
        if !cyclic && !byzantine && !ambiguous && ref_chain.len() <= whole_up_to() && got_links != ref_chain && !acceptable_cut {
            res.violations.push(Violation::new("c10.chain_not_whole").detail(json!({
                "q": qfacts(q), "reference_chain": ref_chain, "got": got_links,
                "exchanges": exchange_summary(obs, q)
            })));
        }
        if ref_chain.len() >= 2 {
            res.nontrivial = true;
        }
        // which sources the chain crossed
        let mut kinds: std::collections::BTreeSet<&str> = std::collections::BTreeSet::new();
        for (owner, _) in &ref_chain {
            kinds.insert(if owner.ends_with(AUTH_APEX) {
                "auth"
            } else if owner.ends_with("over.test.") {
                "nonauth"
            } else if owner.ends_with("cached.test.") {
                "cache"
            } else {
                "upstream"
            });
        }
        bump(&mut res.stats, &format!("probe.sources_in_chain_{}", kinds.len()));
    }
    res.sample = Some(plan_sample(plan));
    res
}

resolve_property!(
    C10,
    "C10",
    "exploration",
    gen_c10,
    oracle_c10,
    60_000,
    1_000_000,
    "alias chains of length 0..40 (dense around the limit of 32), cycles entered anywhere, links dealt in runs to an authoritative local zone, the non-authoritative root zone, the cache (preloaded or left by an earlier question) and upstream zones (correct servers, several links per reply or one, optionally final-before-alias order), question types A/AAAA/TXT/MX, recursive, forwarding and authoritative-only mode, 1..3 questions sharing the cache. Oracle: shape of the returned list (aliases in chain order from the question name, no owner twice, then only records of the asked type at the final target, none twice); chains of <= 25 links come back whole; loops and longer chains end in an error or a prefix of that shape; all within 60 s on a 2 MiB stack. Non-trivial = reference chain has >= 2 links; distinct = distinct (exchange sequence, result classes)",
    [
        "each name of the chain has exactly one source, so the reference chain does not depend on source priority",
        "the forwarder is a correct recursive resolver (the code documents it as trusted); only the composition with local links is judged",
        "an error for an acyclic chain of <= 25 links is a violation; between 26 and 40 links an error or a prefix is accepted"
    ],
    true
);

// ======================================================================= C06

pub struct C06;

const C06_SWEEP_UNIVERSES: u64 = 8;
const C06_SWEEP_POSITIONS: u64 = 6;

fn c06_sweep_len() -> u64 {
    crate::netactors::POISON_KINDS.len() as u64 * C06_SWEEP_POSITIONS * C06_SWEEP_UNIVERSES
}

fn gen_c06(seed: u64, index: u64, tier: Tier) -> ResolvePlan {
    let kinds = crate::netactors::POISON_KINDS;
    if index < c06_sweep_len() {
        let mut i = index;
        let kind = kinds[usize::try_from(i % kinds.len() as u64).unwrap()];
        i /= kinds.len() as u64;
        let pos = i % C06_SWEEP_POSITIONS;
        i /= C06_SWEEP_POSITIONS;
        let uni = i % C06_SWEEP_UNIVERSES;
        let mut r = Rng::new(0xC06_0000 + uni);
        let opts = GenOpts {
            max_depth: 3,
            max_zones: 7,
            ttl_choices: vec![300],
            ..GenOpts::default()
        };
        let u = universe::generate(&mut r, &opts);
        let mut knobs = Knobs::default();
        knobs.server.chase_cnames = uni % 2 == 0;
        knobs.forced_faults = vec![crate::netactors::ForcedFault {
            exchange: format!("q0.x{pos}"),
            kind: kind.to_string(),
        }];
        let deepest = u
            .zones
            .iter()
            .max_by_key(|z| universe::labels(&z.apex))
            .map_or(".".to_string(), |z| z.apex.clone());
        let first = if uni % 3 == 0 { "alias0" } else { "www" };
        let questions = vec![
            QuestionPlan {
                gap_ms: 0,
                name: universe::child_name(first, &deepest),
                qtype: "A".into(),
                recursive: true,
                prune_before: false,
            },
            QuestionPlan {
                gap_ms: 10,
                name: universe::child_name("mail", &deepest),
                qtype: "MX".into(),
                recursive: true,
                prune_before: false,
            },
        ];
        return ResolvePlan {
            knobs,
            hints_auto: true,
            local: Vec::new(),
            universe: u,
            cache_preload: Vec::new(),
            questions,
        };
    }
    let mut r = Rng::new(seed);
    let mut knobs = random_benign_knobs(&mut r);
    knobs.cache_size = 512;
    let opts = GenOpts {
        max_depth: match tier {
            Tier::Quick => r.range(1, 3),
            Tier::Thorough => r.range(1, 4),
        },
        max_zones: r.range(3, 8) as usize,
        multi_address_hosts: r.chance(0.2),
        out_of_zone_ns: r.chance(0.7),
        ttl_choices: r.pick(&[&[300u32][..], &[60, 300]]).to_vec(),
        ..GenOpts::default()
    };
    let n_kinds = r.range(1, kinds.len() as u64) as usize;
    let mut all: Vec<&str> = kinds.to_vec();
    r.shuffle(&mut all);
    knobs.upstream_fault_kinds = all.into_iter().take(n_kinds).map(String::from).collect();
    knobs.faults.insert("upstream.fault".into(), *r.pick(&[0.1, 0.3, 0.6, 1.0]));
    let u = universe::generate(&mut r, &opts);
    let nq = r.range(1, 3) as usize;
    let qs = universe::interesting_questions(&u, &mut r, nq);
    let questions = qs
        .into_iter()
        .map(|(name, qtype)| QuestionPlan {
            gap_ms: *r.pick(&[0u64, 10, 1000]),
            name,
            qtype,
            recursive: true,
            prune_before: false,
        })
        .collect();
    // now and then the process is held up between two clock reads (fault `clock.stall`;
    // own random stream, the rest of the plan stays what it was)
    if Rng::new(seed ^ 0xc10c_57a1_0000).chance(0.25) {
        knobs.faults.insert("clock.stall".into(), 0.02);
    }
    ResolvePlan {
        knobs,
        hints_auto: true,
        local: Vec::new(),
        universe: u,
        cache_preload: Vec::new(),
        questions,
    }
}

fn same_record(a: &ResourceRecord, b: &ResourceRecord) -> bool {
    a.name == b.name && a.rtype_with_data == b.rtype_with_data
}

/// Does exchange `e`, asked while a delegation of `m` labels was in use,
/// justify using or caching record `r` (rules R0-R3 of DESIGN 4.3)?
fn justifies(e: &crate::netactors::Exchange, m: usize, r: &ResourceRecord) -> bool {
    if !e.acceptable() {
        return false;
    }
    let (Some(req), Some(reply)) = (&e.request, &e.reply) else {
        return false;
    };
    let Some(q) = req.questions.first() else {
        return false;
    };
    let all = || {
        reply
            .answers
            .iter()
            .chain(reply.authority.iter())
            .chain(reply.additional.iter())
    };
    if !all().any(|x| same_record(x, r)) {
        return false;
    }
    // R1: on the alias path from the question name, or of the asked type at a name on it
    let mut path: Vec<DomainName> = vec![q.name.clone()];
    let mut i = 0;
    while i < path.len() && path.len() < 64 {
        for x in all() {
            if let RecordTypeWithData::CNAME { cname } = &x.rtype_with_data {
                if x.name == path[i] && !path.contains(cname) {
                    path.push(cname.clone());
                }
            }
        }
        i += 1;
    }
    if path.contains(&r.name) {
        let is_cname = matches!(r.rtype_with_data, RecordTypeWithData::CNAME { .. });
        // (C06 does not say that a question for everything follows nothing; C10 does,
        // and is checked there)
        let follows = q.qtype != QueryType::Record(RecordType::CNAME);
        if follows {
            // the aliases on the path, and records of the asked type where the
            // path ends: a name on it that the reply gives no alias for
            // (aliases are followed through the answer section)
            let is_end = !reply.answers.iter().any(|x| {
                x.name == r.name && matches!(x.rtype_with_data, RecordTypeWithData::CNAME { .. })
            });
            if is_cname || (is_end && r.rtype_with_data.matches(q.qtype)) {
                return true;
            }
        } else if r.name == q.name && r.rtype_with_data.matches(q.qtype) {
            // a question for the CNAME itself follows nothing
            return true;
        }
    }
    // R2: NS owned by an ancestor of the question name deeper than the delegation in use
    let ns_ok = |x: &ResourceRecord| {
        matches!(x.rtype_with_data, RecordTypeWithData::NS { .. })
            && q.name.is_subdomain_of(&x.name)
            && x.name.labels.len() > m
    };
    if ns_ok(r) {
        return true;
    }
    // R3: address of a host named by such an NS record of this reply
    if matches!(
        r.rtype_with_data,
        RecordTypeWithData::A { .. } | RecordTypeWithData::AAAA { .. }
    ) {
        return all().any(|x| match &x.rtype_with_data {
            RecordTypeWithData::NS { nsdname } => ns_ok(x) && *nsdname == r.name,
            _ => false,
        });
    }
    false
}

fn oracle_c06(plan: &ResolvePlan, obs: &Observations) -> RunResult {
    let mut res = base_result(obs);
    // delegation depth in use for each exchange, from the H5 trace
    let depth_of = |e: &crate::netactors::Exchange| -> usize {
        let Some(q) = e.request.as_ref().and_then(|m| m.questions.first()) else {
            return usize::MAX;
        };
        let text = q.to_string();
        obs.trace
            .iter()
            .rev()
            .find(|t| t.at_ms <= e.at_ms && t.ip == e.to.ip() && t.question == text && t.ctx == e.ctx)
            .map_or(usize::MAX, |t| t.match_count)
    };
    let depths: Vec<usize> = obs.exchanges.iter().map(depth_of).collect();
    let local: Vec<ResourceRecord> = resolve_engine::effective_local(plan)
        .iter()
        .flat_map(|z| z.records.iter().map(universe::Rec::to_rr).collect::<Vec<_>>())
        .collect();
    let is_poison = |r: &ResourceRecord| {
        let s = show_rr(r);
        s.contains(" A 203.") || s.contains("poison-") || s.contains("evil.invalid") || s.contains("2001:db8::")
    };
    let mut poison_delivered_acceptable = 0u64;
    let mut tagged_in_discarded = 0u64;
    for e in &obs.exchanges {
        if let Some(m) = &e.reply {
            let n = m
                .answers
                .iter()
                .chain(m.authority.iter())
                .chain(m.additional.iter())
                .filter(|r| is_poison(r))
                .count() as u64;
            if e.acceptable() {
                poison_delivered_acceptable += n;
            } else if e.replied {
                tagged_in_discarded += n;
            }
        }
    }
    for q in &obs.questions {
        let upto = q.exchanges.end;
        let justified = |r: &ResourceRecord| -> bool {
            local.iter().any(|l| same_record(l, r))
                || (0..upto).any(|i| justifies(&obs.exchanges[i], depths[i], r))
        };
        let origin = |r: &ResourceRecord| -> Vec<String> {
            (0..upto)
                .filter(|i| {
                    obs.exchanges[*i].reply.as_ref().is_some_and(|m| {
                        m.answers
                            .iter()
                            .chain(m.authority.iter())
                            .chain(m.additional.iter())
                            .any(|x| same_record(x, r))
                    })
                })
                .map(|i| {
                    let e = &obs.exchanges[i];
                    format!(
                        "{} fault={} acceptable={} depth_in_use={} q={}",
                        e.label,
                        e.fault,
                        e.acceptable(),
                        depths[i],
                        e.request
                            .as_ref()
                            .and_then(|m| m.questions.first())
                            .map_or_else(String::new, ToString::to_string)
                    )
                })
                .collect()
        };
        for c in &q.cache_after {
            if !justified(&c.rr) {
                let off_path_cname = matches!(c.rr.rtype_with_data, RecordTypeWithData::CNAME { .. });
                res.violations.push(
                    Violation::new("c06.unjustified_record_cached")
                        .fact("rtype", c.rr.rtype_with_data.rtype().to_string())
                        .fact("is_alias", off_path_cname)
                        .detail(json!({
                            "record": show_rr(&c.rr), "q": qfacts(q), "came_from": origin(&c.rr),
                            "exchanges": exchange_summary(obs, q)
                        })),
                );
            }
        }
        if let Ok(ResolvedRecord::NonAuthoritative { rrs, soa_rr }) = &q.result {
            // "the CNAME records on that path": of two aliases with one owner
            // only the one that was followed is on the path
            if !matches!(
                q.question.qtype,
                QueryType::Wildcard | QueryType::Record(RecordType::CNAME)
            ) {
                if let Some(why) = alias_linkage_error(&q.question.name.to_dotted_string(), rrs) {
                    res.violations.push(Violation::new("c06.alias_not_on_the_followed_path").detail(json!({
                        "why": why, "q": qfacts(q), "exchanges": exchange_summary(obs, q)
                    })));
                }
            }
            for r in rrs {
                if !justified(r) {
                    res.violations.push(
                        Violation::new("c06.unjustified_record_returned")
                            .fact("rtype", r.rtype_with_data.rtype().to_string())
                            .detail(json!({
                                "record": show_rr(r), "q": qfacts(q), "came_from": origin(r),
                                "exchanges": exchange_summary(obs, q)
                            })),
                    );
                }
            }
            if let Some(soa) = soa_rr {
                // R4: the single SOA of an acceptable answer-less reply
                let ok = (0..upto).any(|i| {
                    let e = &obs.exchanges[i];
                    e.acceptable()
                        && e.request.as_ref().and_then(|m| m.questions.first()).is_some_and(|eq| {
                            // relevant to the question: the SOA of a zone enclosing the name asked
                            eq.name.is_subdomain_of(&soa.name)
                        })
                        && e.reply.as_ref().is_some_and(|m| {
                            m.answers.is_empty()
                                && m.authority
                                    .iter()
                                    .filter(|x| matches!(x.rtype_with_data, RecordTypeWithData::SOA { .. }))
                                    .count()
                                    == 1
                                && m.authority.iter().any(|x| same_record(x, soa))
                        })
                });
                if !ok {
                    res.violations.push(Violation::new("c06.unjustified_soa_returned").detail(json!({
                        "record": show_rr(soa), "q": qfacts(q), "came_from": origin(soa),
                    })));
                }
            }
        }
    }
    if poison_delivered_acceptable > 0 {
        bump(&mut res.stats, "probe.run_with_poison_in_acceptable_reply");
    }
    if tagged_in_discarded > 0 {
        bump(&mut res.stats, "probe.run_with_tagged_records_in_discarded_reply");
    }
    res.nontrivial = poison_delivered_acceptable > 0 || tagged_in_discarded > 0;
    res.sample = Some(plan_sample(plan));
    res
}

resolve_property!(
    C06,
    "C06",
    "fault_enumeration",
    gen_c06,
    oracle_c06,
    60_000,
    1_000_000,
    "first a deterministic sweep - each of 27 poison kinds (unrelated owner / off-path alias / alias fan / SOA / wrong type / duplicate in the answer section; NS for a non-ancestor, a shallower or same-depth ancestor, a foreign owner, a foreign owner naming the referral's own server, extra SOA in authority; a foreign SOA in a negative reply; the asked type at an alias owner; glue for unnamed hosts and unrelated records in additional; eight kinds of reply that must be discarded whole - wrong ID, QR clear, opcode, question, TC, rcode refused / reserved (6..15) / formerr-servfail-notimp - carrying tagged records) at each of 6 exchange positions of 8 universes (1296 runs) - then random mixtures at random rates. Poison records are uniquely tagged. After every question every cache entry (snapshot hook) and every returned record must be justified by an acceptable reply under rules R0-R4 (DESIGN 4.3), with the delegation depth in use taken from the H5 trace. Non-trivial = poison delivered in an acceptable reply or tagged records in a discarded one; distinct = distinct (exchange sequence, faults, result classes)",
    [
        "the justification rule is the property's sentence, section-agnostic; the code may be stricter",
        "a record of the asked type at any name on the alias path counts as justified (lenient on purpose)",
        "legitimate records are attributed to any reply that carries an identical record; poison is unique"
    ],
    true
);
