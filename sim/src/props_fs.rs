//! simworld/fs and C12: configuration files compose by union, last SOA wins,
//! hosts last, directories in sorted order - whatever order the OS lists a
//! directory in and however the reads interleave.

use std::collections::{BTreeMap, BTreeSet};
use std::path::PathBuf;

use dns_types::protocol::types::*;
use dns_types::zones::types::Zones;
use serde::{Deserialize, Serialize};
use serde_json::{json, Value};
use simseam::world;

use crate::props_server::zone_text;
use crate::resolve_engine::{install_world, make_runtime};
use crate::runner::{Exec, Property, RunResult, Tier, Violation};
use crate::server_engine::{materialise, scratch_root, FileSpec, ServerArgs};
use crate::universe::{child_name, Rec};
use crate::util::{dn, parse_data, show_data, Rng};

#[derive(Serialize, Deserialize, Clone, Debug)]
pub struct ZoneFile {
    pub path: String,
    pub apex: String,
    /// SOA minimum when the file carries a SOA (then the zone is authoritative).
    pub soa_minimum: Option<u32>,
    pub soa_serial: u32,
    pub records: Vec<Rec>,
}

#[derive(Serialize, Deserialize, Clone, Debug)]
pub struct HostsFile {
    pub path: String,
    /// `(address, name)` lines.
    pub lines: Vec<(String, String)>,
}

#[derive(Serialize, Deserialize, Clone, Debug)]
pub struct FsPlan {
    pub zone_files: Vec<ZoneFile>,
    pub hosts_files: Vec<HostsFile>,
    pub dirs: Vec<String>,
    pub args: ServerArgs,
    pub faults: BTreeMap<String, f64>,
    pub params: BTreeMap<String, u64>,
    /// How many times the same tree is loaded (each under other listing orders).
    pub loads: u32,
}

fn soa_data(apex: &str, serial: u32, minimum: u32) -> String {
    format!(
        "SOA {} {} {serial} 3600 600 86400 {minimum}",
        child_name("ns", apex),
        child_name("admin", apex)
    )
}

pub fn render_zone_file(z: &ZoneFile) -> String {
    let soa = z.soa_minimum.map(|m| soa_data(&z.apex, z.soa_serial, m));
    zone_text(soa.as_ref().map(|s| (z.apex.as_str(), s.as_str())), &z.records)
}

pub fn render_hosts_file(h: &HostsFile) -> String {
    let mut out = String::new();
    for (addr, name) in &h.lines {
        out.push_str(&format!("{addr} {}\n", name.trim_end_matches('.')));
    }
    out
}

pub fn gen_fs_plan(seed: u64, _tier: Tier) -> FsPlan {
    let mut r = Rng::new(seed);
    let apexes = ["example.com.", "lan.test.", "sub.example.com."];
    let n_zf = r.range(1, 5) as usize;
    let mut zone_files = Vec::new();
    let mut file_names: Vec<String> = Vec::new();
    // decide where each file lives
    let placements = ["zA/", "zB/", "explicit/"];
    for i in 0..n_zf {
        let authoritative = r.chance(0.75);
        let apex = if authoritative {
            (*r.pick(&apexes)).to_string()
        } else {
            ".".to_string()
        };
        let base = if authoritative { apex.clone() } else { "override.net.".to_string() };
        let h = |s: &str| child_name(s, &base);
        let mut records = Vec::new();
        let ttl = |r: &mut Rng| *r.pick(&[30u32, 60, 300, 3600]);
        for _ in 0..r.range(0, 6) {
            let rec = match r.below(9) {
                0 => Rec::new(&h("www"), &format!("A 10.0.{i}.{}", r.range(1, 3)), ttl(&mut r)),
                1 => Rec::new(&h("www"), "A 10.0.0.1", ttl(&mut r)),
                2 => Rec::new(&h("mail"), &format!("MX {} {}", r.range(1, 2) * 10, h("www")), ttl(&mut r)),
                3 => Rec::new(&h("txt"), &format!("TXT file{}", r.range(0, 2)), ttl(&mut r)),
                4 => Rec {
                    owner: if r.chance(0.5) { base.clone() } else { h("w") },
                    wild: true,
                    data: format!("A 10.9.{i}.{}", r.range(1, 2)),
                    ttl: ttl(&mut r),
                },
                5 => Rec {
                    owner: h("w"),
                    wild: true,
                    data: "TXT wild".into(),
                    ttl: ttl(&mut r),
                },
                6 => Rec::new(&child_name("leaf", &h("mid")), "A 10.0.0.9", ttl(&mut r)),
                7 => Rec::new(&h("alias"), &format!("CNAME {}", h("www")), ttl(&mut r)),
                _ => Rec::new(&base, "A 10.0.0.2", ttl(&mut r)),
            };
            // an owner never gets both a CNAME and other data
            let conflict = records.iter().any(|x: &Rec| {
                x.owner == rec.owner && x.wild == rec.wild && ((x.rtype() == "CNAME") != (rec.rtype() == "CNAME"))
            });
            if !conflict && !records.contains(&rec) {
                records.push(rec);
            }
        }
        let dir = *r.pick(&placements);
        let name = format!("{dir}{:02}-{}.zone", r.range(0, 20), (b'a' + i as u8) as char);
        if file_names.contains(&name) {
            continue;
        }
        file_names.push(name.clone());
        // a zone split into fragments that share a copied header: the same SOA,
        // field for field, as an earlier file for this apex
        let copied: Option<(u32, u32)> = zone_files
            .iter()
            .rev()
            .find(|z: &&ZoneFile| z.apex == apex && z.soa_minimum.is_some())
            .map(|z| (z.soa_serial, z.soa_minimum.unwrap()))
            .filter(|_| authoritative && r.chance(0.3));
        zone_files.push(ZoneFile {
            path: name,
            apex,
            soa_minimum: if authoritative {
                Some(copied.map_or_else(|| *r.pick(&[30u32, 60, 300]), |c| c.1))
            } else {
                None
            },
            soa_serial: copied.map_or(100 + i as u32, |c| c.0),
            records,
        });
    }
    let n_hf = r.range(0, 3) as usize;
    let mut hosts_files = Vec::new();
    for i in 0..n_hf {
        let mut lines = Vec::new();
        for _ in 0..r.range(1, 5) {
            let name = (*r.pick(&["printer.lan.", "nas.lan.", "ads.example.net.", "www.override.net."])).to_string();
            let addr = if r.chance(0.7) {
                format!("192.168.{i}.{}", r.range(1, 3))
            } else {
                format!("fd00::{i}:{}", r.range(1, 3))
            };
            lines.push((addr, name));
        }
        let dir = *r.pick(&["hA/", "explicit/"]);
        hosts_files.push(HostsFile {
            path: format!("{dir}{:02}-hosts{i}", r.range(0, 20)),
            lines,
        });
    }
    // arguments: explicit files in a shuffled order, then directories
    let mut zone_file: Vec<String> = zone_files.iter().filter(|z| z.path.starts_with("explicit/")).map(|z| z.path.clone()).collect();
    r.shuffle(&mut zone_file);
    let mut hosts_file: Vec<String> = hosts_files.iter().filter(|z| z.path.starts_with("explicit/")).map(|z| z.path.clone()).collect();
    r.shuffle(&mut hosts_file);
    let mut zones_dir = vec!["zA".to_string(), "zB".to_string()];
    if r.chance(0.5) {
        zones_dir.reverse();
    }
    let mut faults = BTreeMap::new();
    faults.insert("fs.list_order".into(), *r.pick(&[0.5, 1.0]));
    faults.insert("fs.read_delay".into(), 0.5);
    faults.insert("fs.list_delay".into(), 0.5);
    let mut params = BTreeMap::new();
    params.insert("fs.latency.max_ms".into(), *r.pick(&[0u64, 3, 20]));
    FsPlan {
        zone_files,
        hosts_files,
        dirs: vec!["zA".into(), "zB".into(), "hA".into(), "explicit".into(), "zA/subdir".into(), "hA/nested".into()],
        args: ServerArgs {
            zone_file,
            zones_dir,
            hosts_file,
            hosts_dir: vec!["hA".into()],
        },
        faults,
        params,
        loads: 4,
    }
}

type RecKey = (String, bool, String, u32);

#[derive(Default, Debug)]
pub struct ZoneModel {
    pub soa: Option<(u32, u32)>,
    pub records: BTreeSet<RecKey>,
}

/// Application order: explicit files in argument order, then each directory's
/// files in sorted order.
pub fn application_order(explicit: &[String], dirs: &[String], all: &[String]) -> Vec<String> {
    let mut out: Vec<String> = explicit.to_vec();
    for d in dirs {
        let mut inside: Vec<String> = all
            .iter()
            .filter(|p| p.starts_with(&format!("{d}/")) && !p[d.len() + 1..].contains('/'))
            .cloned()
            .collect();
        inside.sort();
        out.extend(inside);
    }
    out
}

/// The set model of "union, last SOA wins, hosts last".
pub fn model_of(plan: &FsPlan) -> BTreeMap<String, ZoneModel> {
    let mut model: BTreeMap<String, ZoneModel> = BTreeMap::new();
    let all_z: Vec<String> = plan.zone_files.iter().map(|z| z.path.clone()).collect();
    for path in application_order(&plan.args.zone_file, &plan.args.zones_dir, &all_z) {
        let Some(z) = plan.zone_files.iter().find(|z| z.path == path) else { continue };
        let m = model.entry(z.apex.to_ascii_lowercase()).or_default();
        if let Some(min) = z.soa_minimum {
            m.soa = Some((z.soa_serial, min));
        }
        for rec in &z.records {
            let ttl = z.soa_minimum.map_or(rec.ttl, |min| rec.ttl.max(min));
            m.records.insert((
                rec.owner.to_ascii_lowercase(),
                rec.wild,
                show_data(&parse_data(&rec.data)),
                ttl,
            ));
        }
    }
    // hosts: later file wins per name and family, merged last into the root zone
    let all_h: Vec<String> = plan.hosts_files.iter().map(|h| h.path.clone()).collect();
    let mut v4: BTreeMap<String, String> = BTreeMap::new();
    let mut v6: BTreeMap<String, String> = BTreeMap::new();
    let mut any_hosts = false;
    for path in application_order(&plan.args.hosts_file, &plan.args.hosts_dir, &all_h) {
        let Some(h) = plan.hosts_files.iter().find(|h| h.path == path) else { continue };
        any_hosts = true;
        for (addr, name) in &h.lines {
            if addr.contains(':') {
                v6.insert(name.to_ascii_lowercase(), addr.clone());
            } else {
                v4.insert(name.to_ascii_lowercase(), addr.clone());
            }
        }
    }
    let _ = any_hosts;
    let root = model.entry(".".into()).or_default();
    for (name, addr) in v4 {
        root.records.insert((name, false, show_data(&parse_data(&format!("A {addr}"))), 5));
    }
    for (name, addr) in v6 {
        root.records.insert((name, false, show_data(&parse_data(&format!("AAAA {addr}"))), 5));
    }
    model
}

/// What a loaded `Zones` holds for an apex, in the model's terms.
pub fn observed_zone(zones: &Zones, apex: &str) -> Option<(Option<(u32, u32)>, Vec<RecKey>)> {
    let zone = zones.get(&dn(apex))?;
    if zone.get_apex() != &dn(apex) {
        return None;
    }
    let soa = zone.get_soa().map(|s| (s.serial, s.minimum));
    let mut recs: Vec<RecKey> = Vec::new();
    for (name, zrs) in zone.all_records() {
        for zr in zrs {
            recs.push((
                name.to_dotted_string(),
                false,
                show_data(&zr.rtype_with_data),
                zr.ttl,
            ));
        }
    }
    for (name, zrs) in zone.all_wildcard_records() {
        for zr in zrs {
            recs.push((
                name.to_dotted_string(),
                true,
                show_data(&zr.rtype_with_data),
                zr.ttl,
            ));
        }
    }
    recs.sort();
    Some((soa, recs))
}

/// Compare loaded zones with the model.
pub fn compare(model: &BTreeMap<String, ZoneModel>, zones: &Zones, vs: &mut Vec<Violation>, load: u32) {
    for (apex, m) in model {
        let Some((soa, recs)) = observed_zone(zones, apex) else {
            if !(m.records.is_empty() && m.soa.is_none()) {
                vs.push(Violation::new("c12.zone_missing").detail(json!({"apex": apex, "load": load})));
            }
            continue;
        };
        if soa != m.soa {
            vs.push(Violation::new("c12.wrong_soa").detail(json!({
                "apex": apex, "want_serial_minimum": m.soa, "got_serial_minimum": soa, "load": load
            })));
        }
        // records other than the SOA record itself
        let is_soa = |k: &RecKey| k.2.starts_with("SOA ");
        let got_soa_records: Vec<&RecKey> = recs.iter().filter(|k| is_soa(k)).collect();
        let want_soa_records = usize::from(m.soa.is_some());
        if got_soa_records.len() != want_soa_records {
            vs.push(
                Violation::new("c12.soa_record_count")
                    .fact("more_than_one", got_soa_records.len() > 1)
                    .detail(json!({"apex": apex, "soa_records": got_soa_records, "load": load})),
            );
        } else if let (Some((serial, min)), Some(k)) = (m.soa, got_soa_records.first()) {
            let want = show_data(&parse_data(&soa_data(apex, serial, min)));
            if k.2 != want || k.3 != min || k.0 != *apex {
                vs.push(Violation::new("c12.soa_record_wrong").detail(json!({"apex": apex, "got": k, "want": want, "load": load})));
            }
        }
        let got: BTreeSet<RecKey> = recs.iter().filter(|k| !is_soa(k)).cloned().collect();
        let dup = recs.len() != recs.iter().collect::<BTreeSet<_>>().len();
        if dup {
            vs.push(Violation::new("c12.duplicate_record").detail(json!({"apex": apex, "load": load})));
        }
        let missing: Vec<&RecKey> = m.records.difference(&got).collect();
        let extra: Vec<&RecKey> = got.difference(&m.records).collect();
        if !missing.is_empty() {
            let wild = missing.iter().all(|k| k.1);
            vs.push(
                Violation::new("c12.record_missing")
                    .fact("only_wildcards", wild)
                    .detail(json!({"apex": apex, "missing": missing, "load": load})),
            );
        }
        if !extra.is_empty() {
            vs.push(Violation::new("c12.record_extra").detail(json!({"apex": apex, "extra": extra, "load": load})));
        }
        // and through questions: the SOA question at the apex
        if m.soa.is_some() {
            if let Some(z) = zones.get(&dn(apex)) {
                if let Some(dns_types::zones::types::ZoneResult::Answer { rrs }) =
                    z.resolve(&dn(apex), QueryType::Record(RecordType::SOA))
                {
                    if rrs.len() != 1 {
                        vs.push(
                            Violation::new("c12.soa_question_answer_count")
                                .fact("more_than_one", rrs.len() > 1)
                                .detail(json!({"apex": apex, "load": load})),
                        );
                    }
                }
            }
        }
    }
}

pub fn fs_files(plan: &FsPlan) -> Vec<FileSpec> {
    let mut files: Vec<FileSpec> = plan
        .zone_files
        .iter()
        .map(|z| FileSpec {
            path: z.path.clone(),
            content: render_zone_file(z),
        })
        .collect();
    files.extend(plan.hosts_files.iter().map(|h| FileSpec {
        path: h.path.clone(),
        content: render_hosts_file(h),
    }));
    files
}

pub struct C12;

fn execute_c12(plan: &FsPlan, exec: &Exec, want_log: bool) -> RunResult {
    let root = scratch_root();
    materialise(&root, &plan.dirs, &fs_files(plan));
    let rt = make_runtime(exec.seed());
    let abs = |v: &Vec<String>| -> Vec<PathBuf> { v.iter().map(|p| root.join(p)).collect() };
    let (hf, hd, zf, zd) = (
        abs(&plan.args.hosts_file),
        abs(&plan.args.hosts_dir),
        abs(&plan.args.zone_file),
        abs(&plan.args.zones_dir),
    );
    let root2 = root.clone();
    let (loaded, w) = rt.block_on(async {
        simseam::clock::use_tokio();
        install_world(exec, &plan.faults, &plan.params, want_log);
        world::with(|w| w.fs.root.clone_from(&root2));
        let mut loaded: Vec<Option<Zones>> = Vec::new();
        for i in 0..plan.loads {
            world::with(|w| w.set_ctx(&format!("load{i}")));
            loaded.push(resolved::fs::load_zone_configuration(&hf, &hd, &zf, &zd).await);
        }
        let w = world::uninstall().expect("HARNESS: world vanished");
        simseam::clock::unset();
        (loaded, w)
    });
    drop(rt);
    let _ = std::fs::remove_dir_all(&root);
    let model = model_of(plan);
    let mut res = RunResult {
        log_hash: w.log_hash(),
        log_events: w.log_count(),
        stats: w.stats.clone(),
        taken: w.taken.clone(),
        log_text: w.log_text.clone(),
        ..RunResult::default()
    };
    for (i, l) in loaded.iter().enumerate() {
        match l {
            None => res.violations.push(
                Violation::new("c12.load_failed").detail(json!({"load": i, "fs_log": format!("{:?}", w.fs.log).chars().take(600).collect::<String>()})),
            ),
            Some(zones) => compare(&model, zones, &mut res.violations, i as u32),
        }
    }
    // shape: which files share an apex, which orders were used
    let mut by_apex: BTreeMap<&str, usize> = BTreeMap::new();
    for z in &plan.zone_files {
        *by_apex.entry(z.apex.as_str()).or_insert(0) += 1;
    }
    let shared = by_apex.values().any(|n| *n > 1);
    let hosts_overlap = {
        let mut seen: BTreeSet<(&str, bool)> = BTreeSet::new();
        let mut o = false;
        for h in &plan.hosts_files {
            let mut mine = BTreeSet::new();
            for (a, n) in &h.lines {
                mine.insert((n.as_str(), a.contains(':')));
            }
            for k in mine {
                if !seen.insert(k) {
                    o = true;
                }
            }
        }
        o
    };
    res.nontrivial = shared || hosts_overlap;
    if shared {
        *res.stats.entry("probe.files_share_an_apex".into()).or_insert(0) += 1;
    }
    if hosts_overlap {
        *res.stats.entry("probe.hosts_files_share_a_name".into()).or_insert(0) += 1;
    }
    if plan.zone_files.iter().any(|z| z.records.iter().any(|r| r.wild)) {
        *res.stats.entry("probe.wildcard_records_present".into()).or_insert(0) += 1;
    }
    res.shape = simseam::hash_bytes(
        res.log_hash,
        format!("{:?}", plan.zone_files.iter().map(|z| (&z.path, &z.apex, z.soa_minimum, z.records.len())).collect::<Vec<_>>()).as_bytes(),
    );
    res.sample = Some(json!({
        "zone_files": plan.zone_files.iter().map(|z| format!("{} apex={} soa_min={:?} records={}", z.path, z.apex, z.soa_minimum, z.records.len())).collect::<Vec<_>>(),
        "hosts_files": plan.hosts_files.iter().map(|h| format!("{} lines={}", h.path, h.lines.len())).collect::<Vec<_>>(),
        "args": plan.args,
    }));
    res
}

fn shrink_fs_plan(plan: &FsPlan) -> Vec<FsPlan> {
    let mut out = Vec::new();
    for i in 0..plan.zone_files.len() {
        let mut p = plan.clone();
        let path = p.zone_files[i].path.clone();
        p.zone_files.remove(i);
        p.args.zone_file.retain(|x| *x != path);
        out.push(p);
    }
    for i in 0..plan.hosts_files.len() {
        let mut p = plan.clone();
        let path = p.hosts_files[i].path.clone();
        p.hosts_files.remove(i);
        p.args.hosts_file.retain(|x| *x != path);
        out.push(p);
    }
    for i in 0..plan.zone_files.len() {
        for j in 0..plan.zone_files[i].records.len() {
            let mut p = plan.clone();
            p.zone_files[i].records.remove(j);
            out.push(p);
        }
    }
    for i in 0..plan.hosts_files.len() {
        for j in 0..plan.hosts_files[i].lines.len() {
            let mut p = plan.clone();
            p.hosts_files[i].lines.remove(j);
            out.push(p);
        }
    }
    if plan.loads > 1 {
        let mut p = plan.clone();
        p.loads = 1;
        out.push(p);
    }
    out
}

impl Property for C12 {
    fn id(&self) -> &'static str {
        "C12"
    }
    fn level(&self) -> &'static str {
        "exploration"
    }
    fn engine(&self) -> &'static str {
        "simworld/fs"
    }
    fn budget(&self, tier: Tier) -> u64 {
        match tier {
            Tier::Quick => 40_000,
            Tier::Thorough => 800_000,
        }
    }
    fn plan(&self, seed: u64, _index: u64, tier: Tier) -> Value {
        serde_json::to_value(gen_fs_plan(seed, tier)).unwrap()
    }
    fn execute(&self, plan: &Value, exec: &Exec, want_log: bool) -> RunResult {
        let plan: FsPlan = serde_json::from_value(plan.clone()).expect("HARNESS: bad fs plan");
        execute_c12(&plan, exec, want_log)
    }
    fn shrink(&self, plan: &Value) -> Vec<Value> {
        let plan: FsPlan = serde_json::from_value(plan.clone()).unwrap();
        shrink_fs_plan(&plan)
            .into_iter()
            .map(|p| serde_json::to_value(p).unwrap())
            .collect()
    }
    fn rule(&self) -> String {
        "1..5 zone files (shared or distinct apex, with or without SOA, differing SOA minimum or the very same SOA repeated, ordinary and wildcard records, overlaps and duplicates) and 0..3 hosts files (conflicts per name and family), spread over -z/-a files (in shuffled argument order) and -Z/-A directories that also contain sub-directories; resolved::fs::load_zone_configuration is run alone, four times per plan, while the simulated file seam permutes every directory listing and delays reads; each loaded configuration is compared with a set model (union per apex with per-file TTL raising, SOA of the last SOA-bearing file in application order, exactly one SOA record, hosts merged last into the root zone with later files winning per name and family). Non-trivial = two files share an apex or two hosts files share a name; distinct = distinct (plan shape, event log)".into()
    }
    fn assumptions(&self) -> Vec<String> {
        vec![
            "what is decided here is the clause about files and directories (listing order, read interleaving, application order); the merge algebra is checked on the way because the oracle computes the expected configuration anyway".into(),
            "'duplicates removed' means identical (data, TTL) pairs".into(),
            "the zone API (get_soa, all_records, all_wildcard_records, resolve) is used only to observe the loaded zones".into(),
            "file names are ASCII, so 'sorted' is unambiguous".into(),
        ]
    }
    fn components(&self) -> Value {
        json!({
            "real": ["resolved::fs::load_zone_configuration, get_files_from_dir, zone_from_file, hosts_from_file", "Zone::deserialise, Hosts::deserialise", "Zones::insert_merge, Zone::merge, Hosts::merge, From<Hosts> for Zone"],
            "stub": ["read_dir / read_to_string (simseam::fs over real files in a tmpfs scratch directory; listing order and latency decided by the world)"],
        })
    }
}
