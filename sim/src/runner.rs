//! Batch runner shared by every check: worker processes, merging, evidence,
//! replay files, minimisation, known findings.

use std::collections::{BTreeMap, BTreeSet};
use std::io::Write;
use std::os::unix::fs::FileExt;
use std::path::{Path, PathBuf};
use std::process::{Command, Stdio};
use std::time::{Duration, Instant};

use serde::{Deserialize, Serialize};
use serde_json::{json, Value};
use simseam::world::Decision;

use crate::util::seed_for;

#[derive(Copy, Clone, Eq, PartialEq, Debug)]
pub enum Tier {
    Quick,
    Thorough,
}

impl Tier {
    pub fn name(self) -> &'static str {
        match self {
            Tier::Quick => "quick",
            Tier::Thorough => "thorough",
        }
    }
}

#[derive(Clone, Debug, Serialize, Deserialize)]
pub struct DecisionJ {
    pub site: String,
    pub entity: String,
    pub n: u32,
    pub value: u64,
}

impl From<&Decision> for DecisionJ {
    fn from(d: &Decision) -> Self {
        DecisionJ {
            site: d.site.clone(),
            entity: d.entity.clone(),
            n: d.n,
            value: d.value,
        }
    }
}

impl From<&DecisionJ> for Decision {
    fn from(d: &DecisionJ) -> Self {
        Decision {
            site: d.site.clone(),
            entity: d.entity.clone(),
            n: d.n,
            value: d.value,
        }
    }
}

/// How the world of a run takes its decisions.
#[derive(Clone, Debug)]
pub enum Exec {
    Seeded(u64),
    Explicit(u64, Vec<Decision>),
}

impl Exec {
    pub fn seed(&self) -> u64 {
        match self {
            Exec::Seeded(s) | Exec::Explicit(s, _) => *s,
        }
    }

    pub fn world(&self) -> simseam::world::World {
        match self {
            Exec::Seeded(s) => simseam::world::World::new(*s),
            Exec::Explicit(s, d) => simseam::world::World::new_explicit(*s, d),
        }
    }
}

#[derive(Clone, Debug, Serialize, Deserialize)]
pub struct Violation {
    /// Verdict kind: the first half of the violation's signature.
    pub kind: String,
    /// Distinguishing facts (second half of the signature; what known
    /// findings are matched on).
    pub facts: BTreeMap<String, Value>,
    /// Free-form detail for the reader.
    pub detail: Value,
}

impl Violation {
    pub fn new(kind: &str) -> Self {
        Violation {
            kind: kind.to_string(),
            facts: BTreeMap::new(),
            detail: Value::Null,
        }
    }

    pub fn fact(mut self, k: &str, v: impl Into<Value>) -> Self {
        self.facts.insert(k.to_string(), v.into());
        self
    }

    pub fn detail(mut self, v: Value) -> Self {
        self.detail = v;
        self
    }

    pub fn signature(&self) -> String {
        let facts: Vec<String> = self.facts.iter().map(|(k, v)| format!("{k}={v}")).collect();
        format!("{}[{}]", self.kind, facts.join(","))
    }
}

#[derive(Clone, Debug, Default)]
pub struct RunResult {
    pub violations: Vec<Violation>,
    pub nontrivial: bool,
    /// Signature of the run's shape (event order / state reached), for
    /// counting distinct runs.
    pub shape: u64,
    pub log_hash: u64,
    pub log_events: u64,
    pub sim_ms: u64,
    pub stats: BTreeMap<String, u64>,
    pub taken: Vec<Decision>,
    /// Abstract states reached (hashes), for the distinct-state measure.
    pub states: Vec<u64>,
    pub sample: Option<Value>,
    /// Full event log text (only when requested).
    pub log_text: Option<Vec<String>>,
}

pub trait Property: Sync {
    fn id(&self) -> &'static str;
    fn level(&self) -> &'static str;
    fn engine(&self) -> &'static str;
    /// Number of runs for the tier.
    fn budget(&self, tier: Tier) -> u64;
    /// Wall-clock cap in seconds for the tier (the batch stops early and says so).
    fn time_cap_s(&self, tier: Tier) -> u64 {
        match tier {
            Tier::Quick => 120,
            Tier::Thorough => 1500,
        }
    }
    /// Plan for run `index` (low indices may be a deterministic sweep).
    fn plan(&self, seed: u64, index: u64, tier: Tier) -> Value;
    fn execute(&self, plan: &Value, exec: &Exec, want_log: bool) -> RunResult;
    /// One-step smaller candidate plans.
    fn shrink(&self, plan: &Value) -> Vec<Value>;
    fn rule(&self) -> String;
    fn assumptions(&self) -> Vec<String>;
    fn components(&self) -> Value;
    /// Real-time watchdog per run, seconds.
    fn watchdog_s(&self) -> u64 {
        30
    }
    /// A run ended abnormally (stall, panic): properties that say nothing
    /// about the abnormality may turn it into an 'inconclusive' counter.
    fn triage_abnormal(&self, _r: &mut RunResult) {}
}

// ------------------------------------------------------------ known findings

#[derive(Clone, Debug, Serialize, Deserialize)]
pub struct KnownFinding {
    pub property: String,
    pub status: String,
    pub kind: String,
    #[serde(default)]
    pub facts: BTreeMap<String, Value>,
    pub what_fails: String,
    #[serde(default)]
    pub commit: Option<String>,
}

pub fn load_known_findings(verif_dir: &Path) -> Vec<KnownFinding> {
    let p = verif_dir.join("known_findings.json");
    match std::fs::read_to_string(&p) {
        Ok(s) => serde_json::from_str(&s).unwrap_or_else(|e| {
            eprintln!("harness error: cannot parse {}: {e}", p.display());
            std::process::exit(2);
        }),
        Err(_) => Vec::new(),
    }
}

fn matches_known(v: &Violation, prop: &str, known: &[KnownFinding]) -> Option<usize> {
    known.iter().position(|k| {
        k.status == "open"
            && k.property == prop
            && k.kind == v.kind
            && k.facts.iter().all(|(key, val)| v.facts.get(key) == Some(val))
    })
}

// ----------------------------------------------------------- running one run

/// Panics raised anywhere in the process while a run executes: a panic inside
/// a spawned tokio task is swallowed by the runtime, but it still is a panic
/// of the code under test.
pub static PANICS: std::sync::atomic::AtomicU64 = std::sync::atomic::AtomicU64::new(0);
pub static LAST_PANIC: std::sync::Mutex<String> = std::sync::Mutex::new(String::new());

pub fn install_panic_hook() {
    std::panic::set_hook(Box::new(|info| {
        PANICS.fetch_add(1, std::sync::atomic::Ordering::SeqCst);
        let msg = info
            .payload()
            .downcast_ref::<String>()
            .cloned()
            .or_else(|| info.payload().downcast_ref::<&str>().map(|s| (*s).to_string()))
            .unwrap_or_default();
        let at = info.location().map_or_else(String::new, |l| format!("{}:{}", l.file(), l.line()));
        if let Ok(mut g) = LAST_PANIC.lock() {
            *g = format!("{msg} at {at}");
        }
    }));
}

type RunReply = Result<RunResult, (Box<dyn std::any::Any + Send>, Option<(u64, u64)>)>;

struct Job {
    prop: &'static dyn Property,
    plan: Value,
    exec: Exec,
    want_log: bool,
    reply: std::sync::mpsc::Sender<RunReply>,
}

/// The run thread and the size of its stack in KiB.
static RUN_THREAD: std::sync::Mutex<Option<(usize, std::sync::mpsc::Sender<Job>)>> = std::sync::Mutex::new(None);
/// CPU-time clock of the run thread (0 = not known yet).
static RUN_THREAD_CPU_CLOCK: std::sync::atomic::AtomicI64 = std::sync::atomic::AtomicI64::new(0);

/// CPU time the run thread has consumed so far, in milliseconds.
fn run_thread_cpu_ms() -> Option<u64> {
    let cid = RUN_THREAD_CPU_CLOCK.load(std::sync::atomic::Ordering::SeqCst);
    if cid == 0 {
        return None;
    }
    let mut ts = libc::timespec { tv_sec: 0, tv_nsec: 0 };
    // SAFETY: ts is a valid out pointer; a stale clock id only makes the call fail
    if unsafe { libc::clock_gettime(cid as libc::clockid_t, &mut ts) } != 0 {
        return None;
    }
    Some(ts.tv_sec as u64 * 1000 + ts.tv_nsec as u64 / 1_000_000)
}

enum Waited {
    Reply(RunReply),
    /// the run burnt its whole CPU allowance without finishing
    Spinning,
    /// the run thread is neither finishing nor consuming CPU
    Blocked,
    /// the machine is too slow to tell
    Inconclusive,
}

/// Wait for the run thread's reply.  A run is a few milliseconds of CPU; it is
/// declared hung by the CPU time its thread has consumed (`watchdog_s`
/// seconds), not by wall-clock time, so that a loaded machine - many checks
/// at once, a build next door - cannot turn a descheduled run into a "hang".
/// A thread that is not scheduled at all for a long stretch of wall-clock time
/// although it was given the chance (no CPU consumed in 20 s after the first
/// `watchdog_s` seconds) is blocked, which is a hang of the other kind.
fn wait_for_reply(rx: &std::sync::mpsc::Receiver<RunReply>, watchdog_s: u64) -> Waited {
    let started = std::time::Instant::now();
    let mut cpu0 = run_thread_cpu_ms();
    let mut window: std::collections::VecDeque<(u64, u64)> = std::collections::VecDeque::new();
    loop {
        match rx.recv_timeout(Duration::from_millis(500)) {
            Ok(r) => return Waited::Reply(r),
            Err(std::sync::mpsc::RecvTimeoutError::Disconnected) => return Waited::Inconclusive,
            Err(std::sync::mpsc::RecvTimeoutError::Timeout) => {}
        }
        let wall = started.elapsed().as_secs();
        if cpu0.is_none() {
            cpu0 = run_thread_cpu_ms();
        }
        let (Some(c0), Some(c)) = (cpu0, run_thread_cpu_ms()) else {
            // no CPU clock: fall back on a generous wall-clock limit
            if wall >= watchdog_s * 10 {
                return Waited::Spinning;
            }
            continue;
        };
        let used = c.saturating_sub(c0);
        if used >= watchdog_s * 1000 {
            return Waited::Spinning;
        }
        window.push_back((started.elapsed().as_millis() as u64, c));
        while window.len() > 1 && window[1].0 + 20_000 <= window.back().unwrap().0 {
            window.pop_front();
        }
        if wall >= watchdog_s {
            let (t_old, c_old) = window[0];
            let (t_new, c_new) = *window.back().unwrap();
            if t_new - t_old >= 20_000 && c_new.saturating_sub(c_old) < 20 {
                return Waited::Blocked;
            }
        }
        if wall >= 1800 {
            return Waited::Inconclusive;
        }
    }
}

fn spawn_run_thread(stack_kib: usize) -> std::sync::mpsc::Sender<Job> {
    let (tx, rx) = std::sync::mpsc::channel::<Job>();
    std::thread::Builder::new()
        .stack_size(stack_kib * 1024)
        .name("simrun".into())
        .spawn(move || {
            // the watchdog reads this thread's CPU clock
            let mut cid: libc::clockid_t = 0;
            // SAFETY: pthread_self is this thread; cid is a valid out pointer
            if unsafe { libc::pthread_getcpuclockid(libc::pthread_self(), &mut cid) } == 0 {
                RUN_THREAD_CPU_CLOCK.store(cid as i64, std::sync::atomic::Ordering::SeqCst);
            }
            while let Ok(job) = rx.recv() {
                let r = std::panic::catch_unwind(std::panic::AssertUnwindSafe(|| {
                    job.prop.execute(&job.plan, &job.exec, job.want_log)
                }));
                // a panicking run may leave a world installed on this thread
                let left = simseam::world::uninstall();
                simseam::clock::unset();
                let r = match (r, left) {
                    (Err(p), Some(w)) => Err((p, Some((w.address_lookup_count, w.trace.len() as u64)))),
                    (Err(p), None) => Err((p, None)),
                    (Ok(x), _) => Ok(x),
                };
                let _ = job.reply.send(r);
            }
        })
        .expect("spawn run thread");
    tx
}

/// Execute one run on the run thread - 2 MiB stack, tokio's worker default,
/// every run starting from the same frame - under a real-time watchdog.  A
/// panic inside the run is caught and reported as a violation of kind
/// `panic`.  After a hang the thread is abandoned (the caller exits soon).
pub fn run_isolated(prop: &'static dyn Property, plan: &Value, exec: &Exec, want_log: bool) -> RunResult {
    let (reply, rx) = std::sync::mpsc::channel();
    {
        // the stack the code under test runs on is a knob of the plan (tokio's
        // worker default, 2 MiB, unless the plan says otherwise)
        let stack_kib = plan
            .pointer("/knobs/params/stack_kib")
            .and_then(Value::as_u64)
            .map_or(2048, |k| k.clamp(64, 65536) as usize);
        let mut slot = RUN_THREAD.lock().unwrap();
        if slot.as_ref().is_some_and(|(k, _)| *k != stack_kib) {
            // dropping the sender ends the old thread
            *slot = None;
        }
        if slot.is_none() {
            *slot = Some((stack_kib, spawn_run_thread(stack_kib)));
        }
        let job = Job {
            prop,
            plan: plan.clone(),
            exec: exec.clone(),
            want_log,
            reply,
        };
        slot.as_ref().unwrap().1.send(job).expect("run thread gone");
    }
    let panics_before = PANICS.load(std::sync::atomic::Ordering::SeqCst);
    let waited = wait_for_reply(&rx, prop.watchdog_s());
    let hang_kind = match &waited {
        Waited::Spinning => "spinning",
        Waited::Blocked => "blocked",
        _ => "",
    };
    match waited {
        Waited::Reply(Ok(mut r)) => {
            if PANICS.load(std::sync::atomic::Ordering::SeqCst) > panics_before {
                let msg = LAST_PANIC.lock().map(|g| g.clone()).unwrap_or_default();
                if msg.starts_with("HARNESS:") {
                    r.violations.push(Violation::new("harness_error").detail(json!({ "message": msg })));
                } else {
                    r.violations.push(
                        Violation::new("panic")
                            .fact("inside_spawned_task", true)
                            .detail(json!({ "message": msg })),
                    );
                }
            }
            r
        }
        Waited::Reply(Err((panic, left))) => {
            let msg = if let Some(s) = panic.downcast_ref::<String>() {
                s.clone()
            } else if let Some(s) = panic.downcast_ref::<&str>() {
                (*s).to_string()
            } else {
                "non-string panic".to_string()
            };
            let kind = if msg.starts_with("HARNESS:") {
                "harness_error"
            } else if msg.starts_with("STALL:") {
                "stall"
            } else {
                "panic"
            };
            let mut v = Violation::new(kind).detail(json!({ "message": msg }));
            if kind == "stall" {
                // where it spins: a storm of name-server address lookups that
                // never reach the network, or something else
                let (lookups, upstream) = left.unwrap_or((0, 0));
                v = v
                    .fact("address_lookup_storm", lookups > 1000 * (upstream + 1))
                    .detail(json!({ "message": msg, "address_lookups": lookups, "upstream_queries": upstream }));
            }
            let mut r = RunResult {
                violations: vec![v],
                ..RunResult::default()
            };
            prop.triage_abnormal(&mut r);
            r
        }
        Waited::Inconclusive => {
            simseam::clock::ABORT.store(true, std::sync::atomic::Ordering::Relaxed);
            *RUN_THREAD.lock().unwrap() = None;
            std::thread::sleep(Duration::from_millis(300));
            simseam::clock::ABORT.store(false, std::sync::atomic::Ordering::Relaxed);
            RunResult {
                violations: vec![Violation::new("harness_error").detail(json!({
                    "message": "HARNESS: a run neither finished nor used its CPU allowance within 30 minutes of real time (machine too loaded to tell)"
                }))],
                ..RunResult::default()
            }
        }
        Waited::Spinning | Waited::Blocked => {
            // the thread is still spinning: ask it to unwind at its next clock
            // read, and abandon it
            simseam::clock::ABORT.store(true, std::sync::atomic::Ordering::Relaxed);
            *RUN_THREAD.lock().unwrap() = None;
            std::thread::sleep(Duration::from_millis(300));
            simseam::clock::ABORT.store(false, std::sync::atomic::Ordering::Relaxed);
            RunResult {
                violations: vec![Violation::new("hang").detail(json!({
                    "message": if hang_kind == "spinning" {
                        format!("run did not finish within {} s of CPU time", prop.watchdog_s())
                    } else {
                        format!("run thread blocked: no CPU consumed for 20 s, {} s after the run began", prop.watchdog_s())
                    }
                }))],
                stats: [("hang".to_string(), 1)].into_iter().collect(),
                ..RunResult::default()
            }
        }
    }
}

// ------------------------------------------------------------------- workers

#[derive(Serialize, Deserialize, Default)]
struct WorkerOut {
    evaluations: u64,
    nontrivial: u64,
    shapes: Vec<u64>,
    states: Vec<u64>,
    sim_ms: u64,
    log_events: u64,
    stats: BTreeMap<String, u64>,
    samples: Vec<Value>,
    failures: Vec<Failure>,
    stopped_early: bool,
    hang: bool,
}

#[derive(Serialize, Deserialize, Clone)]
struct Failure {
    index: u64,
    seed: u64,
    plan: Value,
    violations: Vec<Violation>,
}

/// Worker entry: runs indices `w, w+n, w+2n, ..` below `total`.
pub fn worker_main(
    prop: &'static dyn Property,
    tier: Tier,
    base_seed: u64,
    w: u64,
    n: u64,
    total: u64,
    deadline_s: u64,
    out_path: &Path,
    progress_path: &Path,
) {
    let start = Instant::now();
    let progress = std::fs::OpenOptions::new()
        .create(true)
        .write(true)
        .truncate(true)
        .open(progress_path)
        .expect("progress file");
    let mut out = WorkerOut::default();
    let mut shapes: BTreeSet<u64> = BTreeSet::new();
    let mut states: BTreeSet<u64> = BTreeSet::new();
    let mut index = w;
    // panics of runs are counted and reported as violations, not printed
    install_panic_hook();
    while index < total {
        if start.elapsed().as_secs() >= deadline_s {
            out.stopped_early = true;
            break;
        }
        let seed = seed_for(base_seed, prop.id(), index);
        let mut buf = [0u8; 16];
        buf[..8].copy_from_slice(&index.to_le_bytes());
        buf[8..].copy_from_slice(&seed.to_le_bytes());
        let _ = progress.write_all_at(&buf, 0);
        let plan = prop.plan(seed, index, tier);
        let r = run_isolated(prop, &plan, &Exec::Seeded(seed), false);
        out.evaluations += 1;
        out.sim_ms += r.sim_ms;
        out.log_events += r.log_events;
        for (k, v) in &r.stats {
            *out.stats.entry(k.clone()).or_insert(0) += v;
        }
        if r.nontrivial {
            out.nontrivial += 1;
            shapes.insert(r.shape);
        }
        for s in &r.states {
            states.insert(*s);
        }
        if out.samples.len() < 2 && r.nontrivial {
            if let Some(s) = r.sample.clone() {
                out.samples.push(s);
            }
        }
        let hang = r.violations.iter().any(|v| v.kind == "hang");
        if !r.violations.is_empty() && out.failures.len() < 40 {
            out.failures.push(Failure {
                index,
                seed,
                plan,
                violations: r.violations,
            });
        }
        if hang {
            out.hang = true;
            break;
        }
        index += n;
    }
    out.shapes = shapes.into_iter().collect();
    out.states = states.into_iter().collect();
    let s = serde_json::to_string(&out).expect("serialise worker output");
    std::fs::write(out_path, s).expect("write worker output");
    // a hung run thread may still be spinning
    std::process::exit(0);
}

// --------------------------------------------------------------------- batch

pub struct BatchConfig {
    pub tier: Tier,
    pub seed: u64,
    pub jobs: u64,
    pub verif_dir: PathBuf,
    pub scratch: PathBuf,
}

fn git_rev(dir: &str) -> String {
    let out = Command::new("git")
        .args(["-C", dir, "describe", "--always", "--dirty"])
        .output();
    match out {
        Ok(o) if o.status.success() => String::from_utf8_lossy(&o.stdout).trim().to_string(),
        _ => "unknown".to_string(),
    }
}

/// Run a whole check.  Returns the process exit code.
pub fn run_batch(prop: &'static dyn Property, cfg: &BatchConfig) -> i32 {
    let start = Instant::now();
    let id = prop.id();
    let total = std::env::var("VERIF_RUNS")
        .ok()
        .and_then(|s| s.parse().ok())
        .unwrap_or_else(|| prop.budget(cfg.tier));
    let cap = std::env::var("VERIF_TIME_CAP_S")
        .ok()
        .and_then(|s| s.parse().ok())
        .unwrap_or_else(|| prop.time_cap_s(cfg.tier));
    println!(
        "check {id} tier={} VERIF_SEED={} runs={} jobs={} engine={}",
        cfg.tier.name(),
        cfg.seed,
        total,
        cfg.jobs,
        prop.engine()
    );
    std::fs::create_dir_all(&cfg.scratch).expect("scratch dir");
    // panics of runs (in the minimiser) are reported as violations, not printed
    install_panic_hook();
    let exe = std::env::current_exe().expect("current exe");
    let mut children = Vec::new();
    for w in 0..cfg.jobs {
        let out_path = cfg.scratch.join(format!("{id}-w{w}.json"));
        let prog_path = cfg.scratch.join(format!("{id}-w{w}.progress"));
        let child = Command::new(&exe)
            .arg("worker")
            .arg(id)
            .arg(cfg.tier.name())
            .arg(cfg.seed.to_string())
            .arg(w.to_string())
            .arg(cfg.jobs.to_string())
            .arg(total.to_string())
            .arg(cap.to_string())
            .arg(&out_path)
            .arg(&prog_path)
            .stdin(Stdio::null())
            .spawn()
            .expect("spawn worker");
        children.push((w, child, out_path, prog_path));
    }

    let mut merged = WorkerOut::default();
    let mut shapes: BTreeSet<u64> = BTreeSet::new();
    let mut states: BTreeSet<u64> = BTreeSet::new();
    let mut crashed: Vec<Failure> = Vec::new();
    let mut harness_errors: Vec<String> = Vec::new();
    for (w, mut child, out_path, prog_path) in children {
        let status = child.wait().expect("wait worker");
        let out: Option<WorkerOut> = std::fs::read_to_string(&out_path)
            .ok()
            .and_then(|s| serde_json::from_str(&s).ok());
        match out {
            Some(o) if status.success() => {
                merged.evaluations += o.evaluations;
                merged.nontrivial += o.nontrivial;
                merged.sim_ms += o.sim_ms;
                merged.log_events += o.log_events;
                merged.stopped_early |= o.stopped_early;
                merged.hang |= o.hang;
                for (k, v) in o.stats {
                    *merged.stats.entry(k).or_insert(0) += v;
                }
                shapes.extend(o.shapes);
                states.extend(o.states);
                for s in o.samples {
                    if merged.samples.len() < 3 {
                        merged.samples.push(s);
                    }
                }
                merged.failures.extend(o.failures);
            }
            _ => {
                // the worker died (stack overflow, abort): attribute to its seed
                let mut buf = [0u8; 16];
                let got = std::fs::File::open(&prog_path)
                    .and_then(|f| f.read_exact_at(&mut buf, 0))
                    .is_ok();
                if got {
                    let index = u64::from_le_bytes(buf[..8].try_into().unwrap());
                    let seed = u64::from_le_bytes(buf[8..].try_into().unwrap());
                    crashed.push(Failure {
                        index,
                        seed,
                        plan: prop.plan(seed, index, cfg.tier),
                        violations: vec![Violation::new("process_crash").detail(json!({
                            "status": format!("{status:?}"), "worker": w
                        }))],
                    });
                } else {
                    harness_errors.push(format!("worker {w} died before its first run: {status:?}"));
                }
            }
        }
        let _ = std::fs::remove_file(&out_path);
        let _ = std::fs::remove_file(&prog_path);
    }
    merged.failures.extend(crashed);
    merged.failures.sort_by_key(|f| f.index);

    // triage: harness errors, known findings, violations
    let known = load_known_findings(&cfg.verif_dir);
    let mut known_hit: BTreeMap<usize, u64> = BTreeMap::new();
    let mut real: Vec<(Failure, Violation)> = Vec::new();
    for f in &merged.failures {
        for v in &f.violations {
            if v.kind == "harness_error" {
                harness_errors.push(format!("seed {}: {}", f.seed, v.detail));
                let dir = cfg.verif_dir.join("replay");
                let _ = std::fs::create_dir_all(&dir);
                let rf = json!({"format": 1, "property": id, "engine": prop.engine(), "engine_rev": "", "repo_rev": "",
                    "seed": f.seed, "mode": "seeded", "plan": f.plan, "decisions": [], "violation": v,
                    "event_log_hash": "", "minimised": false, "original": {}});
                let _ = std::fs::write(dir.join(format!("HARNESS-{id}-{:016x}.json", f.seed)), serde_json::to_string_pretty(&rf).unwrap());
            } else if let Some(k) = matches_known(v, id, &known) {
                *known_hit.entry(k).or_insert(0) += 1;
            } else {
                real.push((f.clone(), v.clone()));
            }
        }
    }
    for (k, n) in &known_hit {
        println!(
            "KNOWN-FINDING: property={id} {} (matched {n} run(s))",
            known[*k].what_fails
        );
    }

    let mut exit = 0;
    let mut replay_paths: Vec<String> = Vec::new();
    if !real.is_empty() {
        let mut tally: BTreeMap<String, u64> = BTreeMap::new();
        for (_, v) in &real {
            *tally.entry(v.signature()).or_insert(0) += 1;
        }
        for (sig, n) in &tally {
            println!("  violation tally: {n} x {sig}");
        }
    }
    if !real.is_empty() {
        exit = 1;
        // report one violation per distinct kind, minimised (at most 3)
        let mut seen: BTreeSet<String> = BTreeSet::new();
        for (f, v) in &real {
            if let Ok(only) = std::env::var("VERIF_ONLY_SIG") {
                if !v.signature().contains(&only) {
                    continue;
                }
            }
            if !seen.insert(v.signature()) || seen.len() > 4 {
                continue;
            }
            let path = minimise_and_write(prop, &f.plan, f.seed, v, &known, cfg);
            println!("VIOLATION property={id} replay={path}");
            println!("  kind={} facts={:?}", v.kind, v.facts);
            replay_paths.push(path);
        }
    }
    if !harness_errors.is_empty() {
        for e in harness_errors.iter().take(5) {
            eprintln!("harness error: {e}");
        }
        if exit == 0 {
            exit = 2;
        }
    }

    let wall = start.elapsed().as_secs_f64();
    let distinct = shapes.len() as u64;
    let mut fired: BTreeMap<String, u64> = BTreeMap::new();
    let mut probes: BTreeMap<String, u64> = BTreeMap::new();
    let mut decided: BTreeMap<String, u64> = BTreeMap::new();
    let mut other: BTreeMap<String, u64> = BTreeMap::new();
    for (k, v) in &merged.stats {
        if let Some(r) = k.strip_prefix("fired.") {
            fired.insert(r.to_string(), *v);
        } else if let Some(r) = k.strip_prefix("probe.") {
            probes.insert(r.to_string(), *v);
        } else if let Some(r) = k.strip_prefix("decided.") {
            decided.insert(r.to_string(), *v);
        } else {
            other.insert(k.clone(), *v);
        }
    }
    #[allow(clippy::cast_precision_loss)]
    let evidence = json!({
        "property_id": id,
        "tier": cfg.tier.name(),
        "seed": cfg.seed,
        "level": prop.level(),
        "coverage": {
            "evaluations": merged.evaluations,
            "distinct_nontrivial": distinct,
            "rule": prop.rule(),
            "samples": merged.samples,
            "nontrivial_runs": merged.nontrivial,
            "distinct_states_reached": states.len(),
            "runs_per_hour": if wall > 0.0 { (merged.evaluations as f64 / wall * 3600.0) as u64 } else { 0 },
            "simulated_time_s": merged.sim_ms / 1000,
            "events_logged": merged.log_events,
            "faults_fired": fired,
            "nonbenign_decisions_by_site": decided,
            "probes": probes,
            "counters": other,
            "budget_runs": total,
            "stopped_early_on_time_cap": merged.stopped_early,
            "components": prop.components(),
            "known_findings_matched": known_hit.iter().map(|(k, n)| json!({"what_fails": known[*k].what_fails, "runs": n})).collect::<Vec<_>>(),
            "replay_files": replay_paths,
            "exhaustive": false,
            "engine": prop.engine(),
            "repo_rev": git_rev("/repo"),
            "verif_rev": git_rev(cfg.verif_dir.to_str().unwrap_or("/verif")),
        },
        "assumptions": prop.assumptions(),
        "wall_s": wall,
        "violations": real.len(),
    });
    let ev_dir = cfg.verif_dir.join("evidence");
    std::fs::create_dir_all(&ev_dir).expect("evidence dir");
    let ev_path = ev_dir.join(format!("{id}.json"));
    std::fs::write(&ev_path, serde_json::to_string_pretty(&evidence).unwrap()).expect("write evidence");
    println!(
        "{id}: {} runs ({} non-trivial, {} distinct shapes, {} distinct states) in {:.1}s; {} s simulated; violations={} known={}",
        merged.evaluations,
        merged.nontrivial,
        distinct,
        states.len(),
        wall,
        merged.sim_ms / 1000,
        real.len(),
        known_hit.values().sum::<u64>(),
    );
    // seam liveness: a batch that never went through the seams exercised
    // something else than the claimed system and must not report "held"
    let seams_dead = if prop.engine().starts_with("simworld") {
        merged.log_events < 3 * merged.evaluations
    } else {
        merged.stats.get("seam.clock_reads").copied().unwrap_or(0) == 0
    };
    if seams_dead && merged.evaluations > 0 {
        eprintln!("harness error: {id}: the code under test did not go through the simulation seams (events {}, runs {})", merged.log_events, merged.evaluations);
        if exit == 0 {
            exit = 2;
        }
    }
    if merged.evaluations == 0 || distinct < 2 {
        eprintln!("harness error: {id}: no (distinct non-trivial) runs were executed");
        if exit == 0 {
            exit = 2;
        }
    }
    exit
}

// -------------------------------------------------------------- minimisation

fn same_violation(r: &RunResult, target: &Violation, known: &[KnownFinding], prop: &str) -> Option<Violation> {
    r.violations
        .iter()
        .find(|v| v.signature() == target.signature() && matches_known(v, prop, known).is_none())
        .cloned()
}

#[derive(Serialize, Deserialize)]
pub struct ReplayFile {
    pub format: u32,
    pub property: String,
    pub engine: String,
    pub engine_rev: String,
    pub repo_rev: String,
    pub seed: u64,
    pub mode: String,
    pub plan: Value,
    pub decisions: Vec<DecisionJ>,
    pub violation: Violation,
    pub event_log_hash: String,
    pub minimised: bool,
    pub original: Value,
}

fn minimise_and_write(
    prop: &'static dyn Property,
    plan: &Value,
    seed: u64,
    target: &Violation,
    known: &[KnownFinding],
    cfg: &BatchConfig,
) -> String {
    let id = prop.id();
    let budget: u64 = std::env::var("VERIF_SHRINK_BUDGET")
        .ok()
        .and_then(|s| s.parse().ok())
        .unwrap_or(2000);
    let t0 = Instant::now();
    let mut spent = 0u64;
    let mut plan = plan.clone();
    let mut violation = target.clone();
    let deterministic_kinds = !matches!(target.kind.as_str(), "hang" | "process_crash");

    // 1. shrink the plan under the seed's decisions
    if deterministic_kinds {
        'outer: loop {
            if spent >= budget || t0.elapsed().as_secs() > 120 {
                break;
            }
            for cand in prop.shrink(&plan) {
                spent += 1;
                let r = run_isolated(prop, &cand, &Exec::Seeded(seed), false);
                if let Some(v) = same_violation(&r, target, known, id) {
                    plan = cand;
                    violation = v;
                    continue 'outer;
                }
                if spent >= budget || t0.elapsed().as_secs() > 120 {
                    break 'outer;
                }
            }
            break;
        }
    }

    // 2. go explicit: keep only the decisions that matter
    let mut mode = "seeded".to_string();
    let mut decisions: Vec<Decision> = Vec::new();
    let mut final_hash = 0u64;
    if deterministic_kinds {
        let r = run_isolated(prop, &plan, &Exec::Seeded(seed), false);
        final_hash = r.log_hash;
        let taken = r.taken.clone();
        let r2 = run_isolated(prop, &plan, &Exec::Explicit(seed, taken.clone()), false);
        if same_violation(&r2, target, known, id).is_some() {
            mode = "explicit".to_string();
            decisions = taken;
            final_hash = r2.log_hash;
            let mut i = 0;
            while i < decisions.len() && spent < budget + 500 && t0.elapsed().as_secs() < 180 {
                let mut cand = decisions.clone();
                cand.remove(i);
                spent += 1;
                let r3 = run_isolated(prop, &plan, &Exec::Explicit(seed, cand.clone()), false);
                if let Some(v) = same_violation(&r3, target, known, id) {
                    decisions = cand;
                    violation = v;
                    final_hash = r3.log_hash;
                } else {
                    i += 1;
                }
            }
            // 3. with fewer faults the plan may shrink further
            'outer2: loop {
                if spent >= budget + 1000 || t0.elapsed().as_secs() > 240 {
                    break;
                }
                for cand in prop.shrink(&plan) {
                    spent += 1;
                    let r4 = run_isolated(prop, &cand, &Exec::Explicit(seed, decisions.clone()), false);
                    if let Some(v) = same_violation(&r4, target, known, id) {
                        plan = cand;
                        violation = v;
                        final_hash = r4.log_hash;
                        continue 'outer2;
                    }
                    if spent >= budget + 1000 || t0.elapsed().as_secs() > 240 {
                        break 'outer2;
                    }
                }
                break;
            }
        }
    }

    let rf = ReplayFile {
        format: 1,
        property: id.to_string(),
        engine: prop.engine().to_string(),
        engine_rev: git_rev(cfg.verif_dir.to_str().unwrap_or("/verif")),
        repo_rev: git_rev("/repo"),
        seed,
        mode,
        plan,
        decisions: decisions.iter().map(DecisionJ::from).collect(),
        violation,
        event_log_hash: format!("{final_hash:016x}"),
        minimised: deterministic_kinds,
        original: json!({ "seed": seed, "candidates_tried": spent }),
    };
    let dir = cfg.verif_dir.join("replay");
    std::fs::create_dir_all(&dir).expect("replay dir");
    let path = dir.join(format!("{id}-{seed:016x}-{}.json", rf.violation.kind));
    let mut f = std::fs::File::create(&path).expect("replay file");
    f.write_all(serde_json::to_string_pretty(&rf).unwrap().as_bytes())
        .expect("write replay");
    path.to_string_lossy().to_string()
}

/// `sim replay <file>`: re-run a replay file in this (fresh) process.
pub fn replay(props: &[&'static dyn Property], path: &Path, verbose: bool) -> i32 {
    let text = match std::fs::read_to_string(path) {
        Ok(t) => t,
        Err(e) => {
            eprintln!("harness error: cannot read {}: {e}", path.display());
            return 2;
        }
    };
    let rf: ReplayFile = match serde_json::from_str(&text) {
        Ok(r) => r,
        Err(e) => {
            eprintln!("harness error: cannot parse {}: {e}", path.display());
            return 2;
        }
    };
    let Some(prop) = props.iter().find(|p| p.id() == rf.property) else {
        eprintln!("harness error: unknown property {}", rf.property);
        return 2;
    };
    let exec = if rf.mode == "explicit" {
        Exec::Explicit(rf.seed, rf.decisions.iter().map(Decision::from).collect())
    } else {
        Exec::Seeded(rf.seed)
    };
    let r = run_isolated(*prop, &rf.plan, &exec, verbose);
    if verbose {
        if let Some(log) = &r.log_text {
            for l in log {
                println!("{l}");
            }
        }
    }
    let hit = r.violations.iter().find(|v| v.kind == rf.violation.kind);
    let hash = format!("{:016x}", r.log_hash);
    match hit {
        Some(v) => {
            println!("replayed: kind={} facts={:?}", v.kind, v.facts);
            println!("detail: {}", serde_json::to_string_pretty(&v.detail).unwrap());
            if rf.minimised && hash != rf.event_log_hash {
                eprintln!(
                    "harness error: violation reproduced but event log hash differs ({} vs recorded {})",
                    hash, rf.event_log_hash
                );
                return 2;
            }
            println!("VIOLATION property={} replay={}", rf.property, path.display());
            1
        }
        None => {
            println!(
                "replay did not reproduce kind={} (got {:?}); event log hash {} (recorded {})",
                rf.violation.kind,
                r.violations.iter().map(|v| v.kind.clone()).collect::<Vec<_>>(),
                hash,
                rf.event_log_hash
            );
            0
        }
    }
}
