//! Properties decided on the simworld/server engine: C09 (framing, triage,
//! survival) and C19 (reload swaps everything or nothing).

use std::collections::BTreeMap;

use dns_resolver::cache::SharedCache;
use dns_resolver::util::types::{ProtocolMode, ResolvedRecord};
use dns_types::protocol::types::*;
use dns_types::zones::types::Zones;
use serde_json::{json, Value};

use crate::netactors::ServerKnobs;
use crate::runner::{Exec, Property, RunResult, Tier, Violation};
use crate::server_engine::{
    self, hex, unhex, FileSpec, MsgObs, MsgPlan, ServerArgs, ServerKnobsPlan, ServerObs, ServerPlan,
};
use crate::universe::{self, child_name, GenOpts, Rec, Universe};
use crate::util::{dn, question, show_qtype, show_rr, Rng};

/// Render records as a zone file in the plain `<owner> <ttl> IN <type> <rdata>` form.
pub fn zone_text(soa: Option<(&str, &str)>, recs: &[Rec]) -> String {
    let mut out = String::new();
    if let Some((apex, soa)) = soa {
        out.push_str(&format!("{apex} 300 IN {soa}\n"));
    }
    for r in recs {
        let owner = if r.wild {
            if r.owner == "." {
                "*.".to_string()
            } else {
                format!("*.{}", r.owner)
            }
        } else {
            r.owner.clone()
        };
        let data = if r.rtype() == "TXT" {
            format!("TXT \"{}\"", r.rdata())
        } else {
            r.data.clone()
        };
        out.push_str(&format!("{owner} {} IN {data}\n", r.ttl));
    }
    out
}

pub fn blocking<T>(f: impl std::future::Future<Output = T>) -> T {
    tokio::runtime::Builder::new_current_thread()
        .build()
        .expect("HARNESS: runtime")
        .block_on(f)
}

/// What the resolver itself says (authoritative-only resolution, empty cache).
pub fn resolver_says(zones: &Zones, q: &Question) -> Result<ResolvedRecord, String> {
    simseam::clock::use_manual();
    let cache = SharedCache::new();
    let (_m, r) = blocking(dns_resolver::resolve(
        false,
        ProtocolMode::OnlyV4,
        53,
        None,
        zones,
        &cache,
        q,
    ));
    simseam::clock::unset();
    r.map_err(|e| e.to_string())
}

/// Sections, AA and RCODE the server must send for a resolver result.
pub fn expected_sections(
    r: &Result<ResolvedRecord, String>,
) -> (Vec<ResourceRecord>, Vec<ResourceRecord>, bool, Rcode) {
    let (an, au, aa, rc) = match r {
        Ok(ResolvedRecord::Authoritative { rrs, soa_rr }) => {
            (rrs.clone(), vec![soa_rr.clone()], true, Rcode::NoError)
        }
        Ok(ResolvedRecord::AuthoritativeNameError { soa_rr }) => {
            (Vec::new(), vec![soa_rr.clone()], true, Rcode::NameError)
        }
        Ok(ResolvedRecord::NonAuthoritative { rrs, soa_rr }) => (
            rrs.clone(),
            soa_rr.iter().cloned().collect(),
            false,
            Rcode::NoError,
        ),
        // a referral out of an authoritative local zone: no answer, the
        // delegation's NS records in the authority section, not authoritative
        Ok(ResolvedRecord::Referral { ns_rrs }) => (Vec::new(), ns_rrs.clone(), false, Rcode::NoError),
        Err(_) => (Vec::new(), Vec::new(), false, Rcode::NoError),
    };
    // what cannot be put on the wire at all (RDATA beyond 65 535 octets, more
    // records than a count field holds - the serialiser is the judge) can only be
    // answered with a failure
    let unserialisable = {
        let mut m = Message::from_question(
            0,
            Question {
                name: dns_types::protocol::types::DomainName::root_domain(),
                qtype: QueryType::Record(RecordType::A),
                qclass: QueryClass::Record(RecordClass::IN),
            },
        );
        m.answers.clone_from(&an);
        m.authority.clone_from(&au);
        m.to_octets().is_err()
    };
    if unserialisable {
        (Vec::new(), Vec::new(), false, Rcode::ServerFailure)
    } else if an.is_empty() && au.is_empty() && rc == Rcode::NoError {
        (an, au, false, Rcode::ServerFailure)
    } else {
        (an, au, aa, rc)
    }
}

fn multiset_eq(a: &[ResourceRecord], b: &[ResourceRecord]) -> bool {
    let mut x: Vec<String> = a.iter().map(show_rr).collect();
    let mut y: Vec<String> = b.iter().map(show_rr).collect();
    x.sort();
    y.sort();
    x == y
}

#[derive(Debug, Clone, PartialEq)]
pub enum Expect {
    NoReply,
    /// Either no reply or a FORMERR with this id (the property's two clauses
    /// conflict for unparseable input with the QR bit set).
    NoReplyOrFormErr(u16),
    FormErr(u16),
    NotImp(Message),
    Refused(Message),
    AnyRcode(Message),
    Resolve(Message),
}

/// Framing/triage reference on the bytes the server gets to see.
/// An independent reading of one domain name (RFC 1035 section 4.1.4 with the
/// server's documented rule that a pointer points before the place the current
/// part of the name began): the labels in lower case and the position behind the
/// name, or `None` for a name the server must refuse.
pub fn ref_parse_name(bytes: &[u8], at: usize) -> Option<(Vec<Vec<u8>>, usize)> {
    let mut labels: Vec<Vec<u8>> = Vec::new();
    let mut len = 0usize;
    let mut pos = at;
    let mut part_start = at;
    let mut end: Option<usize> = None;
    loop {
        let size = usize::from(*bytes.get(pos)?);
        if size == 0 {
            len += 1;
            pos += 1;
            break;
        } else if size <= 63 {
            let label = bytes.get(pos + 1..pos + 1 + size)?;
            labels.push(label.to_ascii_lowercase());
            len += 1 + size;
            pos += 1 + size;
        } else if size >= 192 {
            let lo = usize::from(*bytes.get(pos + 1)?);
            let target = ((size & 0x3f) << 8) | lo;
            if target >= part_start {
                return None;
            }
            if end.is_none() {
                end = Some(pos + 2);
            }
            part_start = target;
            pos = target;
        } else {
            // 64..=191: label types nobody defined
            return None;
        }
        if len > 255 {
            return None;
        }
    }
    if len > 255 {
        return None;
    }
    Some((labels, end.unwrap_or(pos)))
}

/// The question section read independently of the code under test: `None` when
/// it is malformed, otherwise the names of the questions.
pub fn ref_question_names(bytes: &[u8]) -> Option<Vec<Vec<Vec<u8>>>> {
    if bytes.len() < 12 {
        return None;
    }
    let qdcount = usize::from(u16::from_be_bytes([bytes[4], bytes[5]]));
    let mut pos = 12;
    let mut names = Vec::new();
    for _ in 0..qdcount {
        let (labels, next) = ref_parse_name(bytes, pos)?;
        if next + 4 > bytes.len() {
            return None;
        }
        names.push(labels);
        pos = next + 4;
    }
    Some(names)
}

pub fn triage_reference(bytes: &[u8]) -> Expect {
    if bytes.len() < 2 {
        return Expect::NoReply;
    }
    let id = u16::from_be_bytes([bytes[0], bytes[1]]);
    let decoded = match Message::from_octets(bytes) {
        // the decoder accepts it: the question section must be acceptable to an
        // independent reading too, and say the same names
        Ok(mut m) => match ref_question_names(bytes) {
            None => Err(()),
            Some(names) => {
                for (q, labels) in m.questions.iter_mut().zip(names.iter()) {
                    let got: Vec<Vec<u8>> = q.name.labels.iter().filter(|l| !l.is_empty()).map(|l| l.octets().to_vec()).collect();
                    if &got != labels {
                        // expect the name the client sent, not the one the decoder made of it
                        let mut ls: Vec<dns_types::protocol::types::Label> = labels
                            .iter()
                            .filter_map(|l| dns_types::protocol::types::Label::try_from(&l[..]).ok())
                            .collect();
                        ls.push(dns_types::protocol::types::Label::new());
                        if let Some(name) = dns_types::protocol::types::DomainName::from_labels(ls) {
                            q.name = name;
                        }
                    }
                }
                Ok(m)
            }
        },
        Err(_) => Err(()),
    };
    match decoded {
        Ok(m) => {
            if m.header.is_response {
                Expect::NoReply
            } else if m.header.opcode != Opcode::Standard {
                Expect::NotImp(m)
            } else if m.questions.is_empty() {
                Expect::AnyRcode(m)
            } else if m.questions.len() > 1 || m.questions[0].is_unknown() {
                Expect::Refused(m)
            } else {
                Expect::Resolve(m)
            }
        }
        Err(()) => {
            if bytes.len() >= 3 && bytes[2] & 0x80 != 0 {
                Expect::NoReplyOrFormErr(id)
            } else {
                Expect::FormErr(id)
            }
        }
    }
}

/// The bytes of a plan message as the server's framing layer should see them,
/// or `None` when no complete message arrives.  Second value: a reply cannot
/// be observed (the client went away).
pub fn framed_view(m: &MsgPlan) -> (Option<Vec<u8>>, bool, Option<u16>) {
    let payload = unhex(&m.bytes_hex);
    if m.proto == "udp" {
        let n = payload.len().min(512);
        return (Some(payload[..n].to_vec()), false, None);
    }
    let prefix = m
        .prefix
        .unwrap_or_else(|| u16::try_from(payload.len()).unwrap_or(u16::MAX));
    let mut framed = prefix.to_be_bytes().to_vec();
    framed.extend_from_slice(&payload);
    if let Some(cut) = m.cut_at {
        framed.truncate(cut.min(framed.len()));
    }
    let gone = m.after == "close" || m.after == "reset";
    if framed.len() < 2 {
        return (None, gone, None);
    }
    let p = usize::from(u16::from_be_bytes([framed[0], framed[1]]));
    let body = &framed[2..];
    if body.len() >= p {
        (Some(body[..p].to_vec()), gone, None)
    } else {
        // incomplete: on half-close the server sees EOF and may answer FORMERR
        let id = if body.len() >= 2 {
            Some(u16::from_be_bytes([body[0], body[1]]))
        } else {
            None
        };
        if m.after == "half_close" {
            (None, gone, id)
        } else {
            (None, gone, None)
        }
    }
}

// ======================================================================= C09

pub struct C09;

fn c09_zone(r: &mut Rng) -> (String, Vec<Rec>) {
    let apex = "example.test.".to_string();
    let h = |s: &str| child_name(s, &apex);
    let mut recs = vec![
        Rec::new(&apex, &format!("NS {}", h("ns")), 300),
        Rec::new(&h("ns"), "A 192.0.2.53", 300),
        Rec::new(&h("www"), "A 192.0.2.10", 300),
        Rec::new(&h("www"), "AAAA 2001:db8::10", 300),
        Rec::new(&h("mail"), &format!("MX 10 {}", h("www")), 300),
        Rec::new(&h("txt"), "TXT hello", 300),
        Rec::new(&h("alias"), &format!("CNAME {}", h("www")), 300),
        Rec::new(&h("alias2"), &format!("CNAME {}", h("alias")), 300),
        Rec::new(&h("dangling"), &format!("CNAME {}", h("nowhere")), 300),
        Rec::new(&h("deleg"), &format!("NS {}", child_name("ns", &h("deleg"))), 300),
        Rec::new(&child_name("ns", &h("deleg")), "A 192.0.2.54", 300),
        Rec {
            owner: h("w"),
            wild: true,
            data: "A 192.0.2.99".into(),
            ttl: 300,
        },
        Rec::new(&child_name("leaf", &h("mid")), "TXT deep", 300),
        // a wildcard alias, matched one or more labels down, and an alias into it
        Rec {
            owner: h("wa"),
            wild: true,
            data: format!("CNAME {}", h("www")),
            ttl: 300,
        },
        Rec::new(&h("alias3"), &format!("CNAME {}", child_name("p.q", &h("wa"))), 300),
    ];
    // a record set too large for one UDP datagram
    let n_big = r.range(30, 60);
    for i in 0..n_big {
        recs.push(Rec::new(&h("big"), &format!("A 198.51.100.{}", 1 + i), 300));
    }
    // ... and one that ends within a few bytes of the limit
    let n_edge = r.range(24, 30);
    for i in 0..n_edge {
        recs.push(Rec::new(&h("edge"), &format!("A 198.51.101.{}", 1 + i), 300));
    }
    (apex, recs)
}

/// A standard query for `qname A` with two additional records: one of an
/// unknown type whose RDATA is a root label followed by `links` two-byte
/// compression pointers, each pointing at the previous one, and an A record
/// whose owner name is a pointer to the last link.
fn deep_pointer_chain_query(id: u16, qname: &str, links: usize) -> Vec<u8> {
    let mut q = Message::from_question(
        id,
        Question { name: dn(qname), qtype: QueryType::Record(RecordType::A), qclass: QueryClass::Record(RecordClass::IN) },
    );
    q.header.recursion_desired = false;
    let mut b = q.to_octets().map(|b| b.to_vec()).unwrap_or_default();
    if b.len() < 12 {
        return b;
    }
    b[10] = 0;
    b[11] = 2; // ARCOUNT
    // record 1: owner root, type 65280, class IN, ttl 0, rdlength, rdata
    b.extend_from_slice(&[0, 0xff, 0x00, 0, 1, 0, 0, 0, 0]);
    let rdlen = 1 + 2 * links;
    b.extend_from_slice(&u16::try_from(rdlen).unwrap_or(u16::MAX).to_be_bytes());
    let mut prev = b.len();
    b.push(0); // the name every link leads to
    for _ in 0..links {
        let here = b.len();
        b.push(0xC0 | u8::try_from(prev >> 8).unwrap_or(0x3f));
        b.push((prev & 0xff) as u8);
        prev = here;
    }
    // record 2: owner = pointer to the last link, A IN ttl 0 192.0.2.1
    b.push(0xC0 | u8::try_from(prev >> 8).unwrap_or(0x3f));
    b.push((prev & 0xff) as u8);
    b.extend_from_slice(&[0, 1, 0, 1, 0, 0, 0, 0, 0, 4, 192, 0, 2, 1]);
    b
}

fn gen_c09(seed: u64, _index: u64, tier: Tier) -> ServerPlan {
    let mut r = Rng::new(seed);
    let authoritative_only = r.chance(0.7);
    let (apex, mut recs) = c09_zone(&mut r);
    // now and then a record no reply can carry: 70 000 octets of text in one TXT
    // record (the zone parser takes it; RDLENGTH has 16 bits).  Own random stream.
    let has_huge = Rng::new(seed ^ 0x4875_6765_0000).chance(0.05);
    if has_huge {
        recs.push(Rec::new(&child_name("huge", &apex), &format!("TXT {}", "x".repeat(70_000)), 300));
    }
    let soa = format!("SOA ns.{apex} admin.{apex} 1 3600 600 86400 60");
    let mut zone_body = zone_text(Some((&apex, &soa)), &recs);
    // names whose full reply lands exactly on and around the 512-byte limit
    // (sizes calibrated by measuring, not by judging, the encoder)
    for (k, target) in [510usize, 511, 512, 513, 514].iter().enumerate() {
        let name = child_name(&format!("pad{k}"), &apex);
        let line = |x: usize| format!("{name} 300 IN TXT \"{}\"\n", "a".repeat(x));
        let measure = |x: usize| -> Option<usize> {
            let text = format!("{zone_body}{}", line(x));
            let zone = match dns_types::zones::types::Zone::deserialise(&text) {
                Ok(z) => z,
                Err(e) => {
                    if std::env::var("VERIF_DEBUG").is_ok() {
                        eprintln!("calibration: zone does not parse: {e:?}");
                    }
                    return None;
                }
            };
            let mut zones = Zones::new();
            zones.insert(zone);
            let q = question(&name, "TXT");
            let (an, au, aa, rc) = expected_sections(&resolver_says(&zones, &q));
            let mut m = Message::from_question(1, q).make_response();
            m.header.is_authoritative = aa;
            m.header.rcode = rc;
            m.answers = an;
            m.authority = au;
            m.to_octets().ok().map(|b| b.len())
        };
        if let Some(base) = measure(10) {
            if *target >= base {
                let x = target - base + 10;
                if measure(x) == Some(*target) {
                    zone_body.push_str(&line(x));
                }
            }
        }
    }
    let mut files = vec![FileSpec {
        path: "zones/example.zone".into(),
        content: zone_body,
    }];
    files.push(FileSpec {
        path: "hosts/blocklist".into(),
        content: "0.0.0.0 ads.example.net tracker.example.net\n192.168.0.9 printer.lan\n".into(),
    });
    let u = if authoritative_only {
        Universe::default()
    } else {
        let opts = GenOpts {
            max_depth: 2,
            max_zones: 4,
            ttl_choices: vec![300],
            ..GenOpts::default()
        };
        let u = universe::generate(&mut r, &opts);
        files.push(FileSpec {
            path: "zones/root.hints".into(),
            content: zone_text(None, &universe::root_hints(&u)),
        });
        u
    };
    let names_local = ["www", "mail", "txt", "alias", "alias2", "dangling", "deleg", "below.deleg", "x.w", "x.y.w", "x.wa", "x.y.wa", "x.y.z.wa", "alias3", "mid", "leaf.mid", "big", "edge", "nothing", "pad0", "pad1", "pad2", "pad2", "pad3", "pad4"];
    let mut names: Vec<String> = names_local.iter().map(|n| child_name(n, &apex)).collect();
    names.push(apex.clone());
    names.push("ads.example.net.".into());
    names.push("printer.lan.".into());
    if !authoritative_only {
        for z in u.zones.iter().skip(1) {
            names.push(child_name("www", &z.apex));
            names.push(child_name("nonexistent", &z.apex));
        }
    }
    let qtypes: [u16; 12] = [1, 28, 15, 16, 2, 6, 5, 255, 252, 253, 99, 65280];
    let n_msgs = match tier {
        Tier::Quick => r.range(5, 25),
        Tier::Thorough => r.range(5, 40),
    } as usize;
    let horizon = *r.pick(&[0u64, 5, 50, 500]);
    let listen_ms = if authoritative_only { 8_000 } else { 75_000 };
    let mut messages = Vec::new();
    for _ in 0..n_msgs {
        let tcp = r.chance(0.4);
        let id = r.below(65536) as u16;
        let mut what;
        // a valid query as the base
        let qname = r.pick(&names).clone();
        let qtype_num = *r.pick(&qtypes);
        let mut q = Message::from_question(
            id,
            Question {
                name: dn(&qname),
                qtype: QueryType::from(qtype_num),
                qclass: QueryClass::Record(RecordClass::IN),
            },
        );
        q.header.recursion_desired = r.chance(0.5);
        what = format!("query {qname} {}", show_qtype(q.questions[0].qtype));
        // header and question oddities, each on its own (so that they also combine:
        // a response-flagged message with a non-standard opcode, several questions
        // of an unknown class, ...)
        if r.chance(0.1) {
            q.header.is_response = true;
            what = format!("response-flagged {what}");
        }
        if r.chance(0.1) {
            q.header.opcode = Opcode::from(*r.pick(&[1u8, 2, 5, 15]));
            what = format!("opcode {:?} {what}", q.header.opcode);
        }
        if r.chance(0.08) {
            let n = r.range(0, 3);
            let extra = q.questions[0].clone();
            q.questions.clear();
            for _ in 0..n {
                q.questions.push(extra.clone());
            }
            what = format!("{n} questions {what}");
        }
        if !q.questions.is_empty() && r.chance(0.08) {
            let c = QueryClass::from(*r.pick(&[3u16, 4, 255, 999]));
            for qq in &mut q.questions {
                qq.qclass = c;
            }
            what = format!("class {c:?} {what}");
        }
        if r.chance(0.08) {
            q.header.is_authoritative = r.chance(0.5);
            q.header.is_truncated = r.chance(0.5);
            q.header.recursion_available = r.chance(0.5);
            q.header.rcode = Rcode::from(r.below(16) as u8);
            what = format!("odd flags {what}");
        }
        let mut bytes = q.to_octets().map(|b| b.to_vec()).unwrap_or_default();
        match r.below(14) {
            0 => {
                let len = *r.pick(&[0usize, 1, 2, 3, 11, 12, 13, 40, 512, 513, 700]);
                bytes = (0..len).map(|_| r.below(256) as u8).collect();
                what = format!("{len} random bytes");
            }
            1 => {
                if !bytes.is_empty() {
                    let cut = r.below(bytes.len() as u64) as usize;
                    bytes.truncate(cut);
                    what = format!("truncated at {cut}: {what}");
                }
            }
            2 => {
                if !bytes.is_empty() {
                    let pos = r.below(bytes.len() as u64) as usize;
                    bytes[pos] ^= 1 << r.below(8);
                    what = format!("bit flip at {pos}: {what}");
                }
            }
            3 => {
                let pad = r.range(1, 900) as usize;
                bytes.extend(std::iter::repeat(0u8).take(pad));
                what = format!("{pad} bytes of padding: {what}");
            }
            4 => {
                // a compression pointer to itself in the question name
                if bytes.len() > 14 {
                    bytes[12] = 0xC0;
                    bytes[13] = 12;
                    what = "self-pointer in question name".into();
                }
            }
            5 => {
                // other pointer games in the question name (offset 12): a label and
                // then a pointer back to that label; a pointer into the middle of the
                // name; a forward pointer; two pointers pointing at each other
                let mut msg = bytes[..12.min(bytes.len())].to_vec();
                if msg.len() == 12 {
                    msg[4] = 0;
                    msg[5] = 1;
                    let shape = r.below(5);
                    // (own random stream: label types nobody defined, 64..=191, followed by
                    // an octet that would make a backward pointer of them)
                    let mut r2 = Rng::new(seed ^ 0x1abe_17b0_0000 ^ (messages.len() as u64));
                    let reserved = if r2.chance(0.5) { Some((*r2.pick(&[0x40u8, 0x80, 0x41, 0xBF]), r2.below(12) as u8)) } else { None };
                    let name: Vec<u8> = match shape {
                        _ if reserved.is_some() => vec![reserved.unwrap().0, reserved.unwrap().1, 0],
                        0 => vec![1, b'a', 0xC0, 12],
                        1 => vec![3, b'w', b'w', b'w', 1, b'a', 0xC0, 16],
                        2 => vec![1, b'a', 0xC0, 40],
                        3 => vec![0xC0, 14, 0xC0, 12],
                        _ => vec![2, b'a', b'b', 0xC0, 13],
                    };
                    msg.extend_from_slice(&name);
                    msg.extend_from_slice(&[0, 1, 0, 1]);
                    bytes = msg;
                    what = match reserved {
                        Some((a, b)) => format!("reserved label type {a:#x} {b:#x} in question name"),
                        None => format!("pointer game {shape} in question name"),
                    };
                }
            }
            _ => {}
        }
        // a legal query whose additional section holds a long chain of compression
        // pointers, each pointing at the one before it (all strictly backwards, all
        // below offset 0x4000): decoding the last name walks the whole chain.  Own
        // random stream, so that the other messages of a plan stay what they were.
        {
            let mut r2 = Rng::new(seed ^ 0x5eed_c4a1_0000 ^ (messages.len() as u64));
            if has_huge && r2.chance(0.3) {
                let hq = child_name("huge", &apex);
                let mut q = Message::from_question(
                    id,
                    Question { name: dn(&hq), qtype: QueryType::Record(RecordType::TXT), qclass: QueryClass::Record(RecordClass::IN) },
                );
                q.header.recursion_desired = r2.chance(0.5);
                bytes = q.to_octets().map(|b| b.to_vec()).unwrap_or_default();
                what = format!("query {hq} TXT (a record too large for any reply)");
            } else if tcp && r2.chance(0.04) {
                let links = *r2.pick(&[300usize, 2000, 5000, 8100]);
                bytes = deep_pointer_chain_query(id, &qname, links);
                what = format!("query {qname} A with a chain of {links} compression pointers in the additional section");
            }
        }
        let mut m = MsgPlan {
            // (now and then a straggler after the five-minute cache-pruning task has run)
            at_ms: if r.chance(0.01) { 300_000 + r.below(10_000) } else { r.below(horizon + 1) },
            proto: if tcp { "tcp".into() } else { "udp".into() },
            bytes_hex: hex(&bytes),
            prefix: None,
            cut_at: None,
            piece: 0,
            piece_gap_ms: 0,
            after: "wait".into(),
            listen_ms,
            what,
        };
        if tcp {
            match r.below(10) {
                0 => {
                    m.prefix = Some(u16::try_from(bytes.len()).unwrap_or(0).saturating_add(r.range(1, 50) as u16));
                    m.after = (*r.pick(&["half_close", "wait", "close"])).into();
                }
                1 => {
                    m.prefix = Some(u16::try_from(bytes.len()).unwrap_or(0).saturating_sub(r.range(1, 12) as u16));
                }
                2 => m.prefix = Some(0),
                3 => {
                    m.cut_at = Some(r.below(bytes.len() as u64 + 3) as usize);
                    m.after = (*r.pick(&["half_close", "close", "reset", "wait"])).into();
                }
                4 | 5 => {
                    m.piece = *r.pick(&[1usize, 1, 2, 7]);
                    m.piece_gap_ms = *r.pick(&[0u64, 1, 3]);
                }
                6 => m.after = "half_close".into(),
                _ => {}
            }
            if m.piece == 1 && bytes.len() > 300 {
                m.piece = 16;
            }
        }
        messages.push(m);
    }
    let mut faults = BTreeMap::new();
    let mut params = BTreeMap::new();
    let max_extra = *r.pick(&[0u64, 4, 49]);
    params.insert("net.latency.max_extra_ms".into(), max_extra);
    if max_extra > 0 {
        faults.insert("udp.delay".into(), 0.7);
        faults.insert("tcp.delay".into(), 0.7);
    }
    faults.insert("tcp.segment".into(), *r.pick(&[0.0, 0.3, 0.8]));
    faults.insert("tcp.short_read".into(), *r.pick(&[0.0, 0.3, 0.8]));
    faults.insert("tcp.partial_write".into(), *r.pick(&[0.0, 0.3]));
    // the environment fails a receive, a send or an accept of the server now and then
    faults.insert("udp.recv_error".into(), *r.pick(&[0.0, 0.0, 0.05, 0.3]));
    faults.insert("udp.send_error".into(), *r.pick(&[0.0, 0.0, 0.1]));
    faults.insert("tcp.accept_error".into(), *r.pick(&[0.0, 0.0, 0.1]));
    faults.insert("fs.list_order".into(), 0.5);
    faults.insert("order.any_answer".into(), *r.pick(&[0.0, 0.5, 1.0]));
    // how much stack the server's threads get is a deployment knob (tokio's default
    // for a worker is 2 MiB); runs that carry a long pointer chain vary it
    if messages.iter().any(|m| m.what.contains("compression pointers")) {
        let mut r2 = Rng::new(seed ^ 0x57ac_c000);
        params.insert("stack_kib".into(), *r2.pick(&[2048u64, 1024, 512, 256]));
    }
    ServerPlan {
        knobs: ServerKnobsPlan {
            authoritative_only,
            forwarding: false,
            protocol_mode: "only-v4".into(),
            cache_size: *r.pick(&[512usize, 4]),
            upstream: ServerKnobs::default(),
            faults,
            params,
        },
        universe: u,
        dirs: vec!["zones/subdir".into()],
        files,
        args: ServerArgs {
            zone_file: Vec::new(),
            zones_dir: vec!["zones".into()],
            hosts_file: Vec::new(),
            hosts_dir: vec!["hosts".into()],
        },
        messages,
        operator: Vec::new(),
        probes: vec![(child_name("www", &apex), "A".into()), (child_name("txt", &apex), "TXT".into())],
    }
}

fn header_of(bytes: &[u8]) -> Option<(u16, bool, u8, bool, bool, bool, bool, u8)> {
    if bytes.len() < 4 {
        return None;
    }
    Some((
        u16::from_be_bytes([bytes[0], bytes[1]]),
        bytes[2] & 0x80 != 0,
        (bytes[2] >> 3) & 0x0f,
        bytes[2] & 0x04 != 0,
        bytes[2] & 0x02 != 0,
        bytes[2] & 0x01 != 0,
        bytes[3] & 0x80 != 0,
        bytes[3] & 0x0f,
    ))
}

/// Owners allowed in an answer section: the question name and its alias chain.
fn answer_owners_ok(qname: &DomainName, answers: &[ResourceRecord]) -> Option<String> {
    let mut allowed = vec![qname.clone()];
    let mut changed = true;
    while changed {
        changed = false;
        for rr in answers {
            if let RecordTypeWithData::CNAME { cname } = &rr.rtype_with_data {
                if allowed.contains(&rr.name) && !allowed.contains(cname) {
                    allowed.push(cname.clone());
                    changed = true;
                }
            }
        }
    }
    answers
        .iter()
        .find(|rr| !allowed.contains(&rr.name))
        .map(show_rr)
}

/// Judge the replies to one message.
#[allow(clippy::too_many_lines)]
pub fn judge_message(
    plan: &ServerPlan,
    zones: &Zones,
    m: &MsgPlan,
    o: &MsgObs,
    vs: &mut Vec<Violation>,
    stats: &mut BTreeMap<String, u64>,
    differential: bool,
) {
    let bump = |stats: &mut BTreeMap<String, u64>, k: &str| *stats.entry(k.to_string()).or_insert(0) += 1;
    let offered = !plan.knobs.authoritative_only;
    let (view, gone, eof_id) = framed_view(m);
    let detail = |why: &str| {
        json!({
            "why": why, "message": m.what, "proto": m.proto, "bytes": m.bytes_hex.chars().take(160).collect::<String>(),
            "prefix": m.prefix, "cut_at": m.cut_at, "after": m.after,
            "replies": o.replies.iter().map(|(t, b)| format!("@{t}ms {}", hex(&b[..b.len().min(80)]))).collect::<Vec<_>>(),
            "tcp_eof": o.tcp_eof, "tcp_error": o.tcp_error,
        })
    };
    if o.connect_failed {
        vs.push(Violation::new("c09.connect_failed").detail(detail("client could not reach the server")));
        return;
    }
    if gone {
        bump(stats, "probe.client_left_before_reply");
        return;
    }
    // split what was received into messages
    let mut got: Vec<Vec<u8>> = Vec::new();
    if m.proto == "udp" {
        got = o.replies.iter().map(|(_, b)| b.clone()).collect();
        for b in &got {
            if b.len() > 512 {
                vs.push(Violation::new("c09.udp_reply_over_512").detail(detail("UDP reply longer than 512 bytes")));
            }
        }
    } else if let Some((_, blob)) = o.replies.first() {
        let mut rest: &[u8] = blob;
        while !rest.is_empty() {
            if rest.len() < 2 {
                vs.push(Violation::new("c09.tcp_framing").detail(detail("dangling byte after the last framed reply")));
                return;
            }
            let n = usize::from(u16::from_be_bytes([rest[0], rest[1]]));
            if rest.len() < 2 + n {
                vs.push(Violation::new("c09.tcp_framing").detail(detail("length prefix larger than the bytes that follow")));
                return;
            }
            got.push(rest[2..2 + n].to_vec());
            rest = &rest[2 + n..];
        }
    }
    let expect = match (&view, eof_id) {
        (Some(bytes), _) => triage_reference(bytes),
        (None, Some(id)) => Expect::FormErr(id),
        (None, None) => Expect::NoReply,
    };
    bump(stats, &format!("probe.expect_{}", match &expect {
        Expect::NoReply => "no_reply",
        Expect::NoReplyOrFormErr(_) => "no_reply_or_formerr",
        Expect::FormErr(_) => "formerr",
        Expect::NotImp(_) => "notimp",
        Expect::Refused(_) => "refused",
        Expect::AnyRcode(_) => "zero_questions",
        Expect::Resolve(_) => "resolve",
    }));
    // Over TCP a length prefix smaller than what follows it makes the rest the
    // start of a *second* framed message (RFC 7766 framing).  This server reads one
    // message per connection and ignores the rest; a server that serves every
    // message of a connection answers those too.  Both satisfy "one reply per
    // message": replies beyond the first are accepted - only their framing is
    // judged (above) - when the client did send enough for another message
    // (a prefix and an ID).
    let leftover = if m.proto == "tcp" {
        let payload = unhex(&m.bytes_hex);
        let prefix = m.prefix.unwrap_or_else(|| u16::try_from(payload.len()).unwrap_or(u16::MAX));
        let mut framed = prefix.to_be_bytes().to_vec();
        framed.extend_from_slice(&payload);
        if let Some(cut) = m.cut_at {
            framed.truncate(cut.min(framed.len()));
        }
        framed.len().saturating_sub(2 + usize::from(prefix))
    } else {
        0
    };
    let further_messages_possible = leftover / 4;
    if got.len() > 1 + further_messages_possible {
        vs.push(Violation::new("c09.more_than_one_reply").detail(detail("more than one reply to one message")));
        return;
    }
    if got.len() > 1 {
        bump(stats, "probe.replies_to_further_framed_messages_of_one_connection");
    }
    let reply = got.first();
    match (&expect, reply) {
        (Expect::NoReply, None) | (Expect::NoReplyOrFormErr(_), None) => return,
        (Expect::NoReply, Some(_)) if further_messages_possible > 0 && view.is_some() => {
            // the first framed message deserves no reply; what came belongs to a later one
            bump(stats, "probe.replies_to_further_framed_messages_of_one_connection");
            return;
        }
        (Expect::NoReply, Some(_)) => {
            vs.push(Violation::new("c09.reply_to_unanswerable").detail(detail("a reply to a response-flagged or too-short message")));
            return;
        }
        (_, None) if o.reply_send_failed || o.aborted_at_accept => {
            // the environment failed the server's send or accept for this very
            // message: nothing can arrive, and the server must only carry on
            bump(stats, "probe.reply_lost_to_injected_send_or_accept_error");
            return;
        }
        (_, None) => {
            vs.push(
                Violation::new("c09.no_reply")
                    .fact("proto", m.proto.clone())
                    .detail(detail("no reply within the listening window")),
            );
            return;
        }
        _ => {}
    }
    let reply = reply.unwrap();
    let Some((id, qr, opcode, aa, tc, rd, ra, rcode)) = header_of(reply) else {
        vs.push(Violation::new("c09.reply_too_short").detail(detail("reply shorter than a header")));
        return;
    };
    if !qr {
        vs.push(Violation::new("c09.reply_without_qr").detail(detail("reply without the response flag")));
    }
    let want_id = match &expect {
        Expect::FormErr(i) | Expect::NoReplyOrFormErr(i) => *i,
        Expect::NotImp(q) | Expect::Refused(q) | Expect::AnyRcode(q) | Expect::Resolve(q) => q.header.id,
        Expect::NoReply => 0,
    };
    if id != want_id {
        vs.push(Violation::new("c09.wrong_id").detail(detail("reply ID differs from the request ID")));
        return;
    }
    match &expect {
        Expect::FormErr(_) | Expect::NoReplyOrFormErr(_) => {
            if rcode != 1 {
                vs.push(Violation::new("c09.expected_formerr").detail(detail("unparseable input not answered with FORMERR")));
            }
        }
        Expect::NotImp(q) | Expect::Refused(q) | Expect::AnyRcode(q) | Expect::Resolve(q) => {
            let want_rcode = match &expect {
                Expect::NotImp(_) => Some(4u8),
                Expect::Refused(_) => Some(5),
                _ => None,
            };
            if let Some(w) = want_rcode {
                if rcode != w {
                    vs.push(Violation::new("c09.wrong_rcode").fact("want", w).detail(detail("wrong RCODE")));
                }
            }
            if opcode != u8::from(q.header.opcode) || rd != q.header.recursion_desired {
                vs.push(Violation::new("c09.header_not_echoed").detail(detail("opcode or RD not echoed")));
            }
            if !matches!(expect, Expect::NotImp(_)) && ra != offered {
                vs.push(Violation::new("c09.wrong_ra").detail(detail("RA does not say whether recursion is offered")));
            }
            // decode (a cut UDP reply may not decode beyond the header)
            let decoded = Message::from_octets(reply);
            if m.proto == "tcp" && tc {
                vs.push(Violation::new("c09.tc_on_tcp").detail(detail("TC set on a TCP reply")));
            }
            if let Ok(d) = &decoded {
                if d.questions != q.questions && !(tc && m.proto == "udp") {
                    vs.push(Violation::new("c09.question_not_echoed").detail(detail("question section not echoed")));
                }
                if let Expect::Resolve(_) = &expect {
                    if let Some(bad) = answer_owners_ok(&q.questions[0].name, &d.answers) {
                        let is_ns = bad.contains(" NS ");
                        vs.push(
                            Violation::new("c09.answer_owner_off_chain")
                                .fact("record_is_ns", is_ns)
                                .fact("aa", aa)
                                .detail(json!({"record": bad, "msg": detail("answer section holds a record for another name")})),
                        );
                    }
                }
            } else if !(tc && m.proto == "udp") {
                vs.push(Violation::new("c09.reply_undecodable").detail(detail("reply does not decode")));
            }
            if let (Expect::Resolve(_), false) = (&expect, differential) {
                // recursive server: no differential, but a name error may only
                // come from the authoritative local zone, and AA only for its names
                let local = q.questions[0].name.is_subdomain_of(&dn("example.test."));
                if rcode == 3 && !local {
                    vs.push(Violation::new("c09.name_error_without_local_authority").detail(detail("RCODE 3 for a name no authoritative local zone owns")));
                }
                if aa && !local {
                    vs.push(Violation::new("c09.aa_without_local_authority").detail(detail("AA set for a name no authoritative local zone owns")));
                }
            }
            if let (Expect::Resolve(_), true) = (&expect, differential) {
                // the differential part: sections, AA and RCODE are the resolver's
                let says = resolver_says(zones, &q.questions[0]);
                let (an, au, want_aa, want_rc) = expected_sections(&says);
                let mut full = q.make_response();
                full.header.recursion_available = offered;
                full.header.is_authoritative = want_aa;
                full.header.rcode = want_rc;
                full.answers = an.clone();
                full.authority = au.clone();
                let full_len = full.to_octets().map(|b| b.len()).unwrap_or(0);
                // only an ANY answer is laid out in HashMap order, which moves
                // compression pointers and so the length by a few bytes
                let near_limit = q.questions[0].qtype == QueryType::Wildcard && (500..=524).contains(&full_len);
                if full_len == 512 {
                    bump(stats, "probe.full_reply_exactly_512_bytes");
                }
                if m.proto == "udp" {
                    let want_tc = full_len > 512;
                    if want_tc {
                        bump(stats, "probe.udp_reply_cut_at_512");
                    }
                    if tc != want_tc && !near_limit {
                        vs.push(
                            Violation::new("c09.tc_wrong")
                                .fact("want_tc", want_tc)
                                .detail(json!({"full_len": full_len, "reply_len": reply.len(), "msg": detail("TC bit does not say whether the reply was cut")})),
                        );
                    }
                    if tc && reply.len() != 512 {
                        vs.push(Violation::new("c09.tc_but_not_512").detail(detail("TC set but the reply is not the first 512 bytes")));
                    }
                }
                if u8::from(want_rc) != rcode || want_aa != aa {
                    vs.push(
                        Violation::new("c09.rcode_or_aa_differs_from_resolver")
                            .detail(json!({"want_rcode": u8::from(want_rc), "want_aa": want_aa, "resolver": format!("{says:?}").chars().take(400).collect::<String>(), "msg": detail("RCODE/AA are not the resolver's")})),
                    );
                }
                if !tc {
                    if let Ok(d) = &decoded {
                        if !multiset_eq(&d.answers, &an) || !multiset_eq(&d.authority, &au) {
                            vs.push(
                                Violation::new("c09.sections_differ_from_resolver")
                                    .detail(json!({
                                        "want_answers": an.iter().map(show_rr).collect::<Vec<_>>(),
                                        "got_answers": d.answers.iter().map(show_rr).collect::<Vec<_>>(),
                                        "want_authority": au.iter().map(show_rr).collect::<Vec<_>>(),
                                        "got_authority": d.authority.iter().map(show_rr).collect::<Vec<_>>(),
                                        "msg": detail("answer/authority are not the resolver's"),
                                    })),
                            );
                        }
                    }
                }
            }
        }
        Expect::NoReply => {}
    }
}

fn oracle_c09(plan: &ServerPlan, obs: &ServerObs) -> RunResult {
    let mut res = RunResult {
        shape: obs.log_hash,
        log_hash: obs.log_hash,
        log_events: obs.log_events,
        sim_ms: obs.sim_ms,
        stats: obs.stats.clone(),
        taken: obs.taken.clone(),
        log_text: obs.log_text.clone(),
        ..RunResult::default()
    };
    if !obs.started {
        res.violations.push(Violation::new("harness_error").detail(json!({"message": "HARNESS: server did not start on a valid configuration"})));
        return res;
    }
    let zones = &obs.versions[0].1;
    let mut shape = 0x99u64;
    for o in &obs.messages {
        let m = &plan.messages[o.index];
        judge_message(plan, zones, m, o, &mut res.violations, &mut res.stats, plan.knobs.authoritative_only);
        shape = simseam::hash_bytes(shape, format!("{} {} {}", m.proto, m.what.split(' ').next().unwrap_or(""), o.replies.len()).as_bytes());
    }
    // survival
    let (tcp, udp, reload, prune) = obs.tasks_alive;
    if !(tcp && udp && reload && prune) {
        res.violations.push(Violation::new("c09.server_task_died").detail(json!({
            "tcp_listener": tcp, "udp_listener": udp, "reload_task": reload, "prune_task": prune
        })));
    }
    for p in &obs.probes {
        // (a probe whose own accept or reply send was failed by the environment proves nothing)
        if p.replies.len() != 1 && !(p.reply_send_failed || p.aborted_at_accept) {
            res.violations.push(
                Violation::new("c09.not_serving_after_run")
                    .detail(json!({"probe": p.index, "replies": p.replies.len()})),
            );
        }
    }
    let malformed = plan.messages.iter().filter(|m| !matches!(framed_view(m).0.as_deref().map(triage_reference), Some(Expect::Resolve(_)))).count();
    res.nontrivial = malformed > 0 && malformed < plan.messages.len();
    res.shape = shape;
    res.sample = Some(json!({
        "authoritative_only": plan.knobs.authoritative_only,
        "messages": plan.messages.iter().take(8).map(|m| format!("@{}ms {} {} {}", m.at_ms, m.proto, m.what, if m.proto == "tcp" { format!("prefix={:?} cut={:?} piece={} after={}", m.prefix, m.cut_at, m.piece, m.after) } else { String::new() })).collect::<Vec<_>>(),
        "n_messages": plan.messages.len(),
    }));
    res
}

pub fn shrink_server_plan(plan: &ServerPlan) -> Vec<ServerPlan> {
    let mut out = Vec::new();
    let n = plan.messages.len();
    let mut chunk = n / 2;
    while chunk >= 1 {
        let mut i = 0;
        while i + chunk <= n {
            let mut p = plan.clone();
            p.messages.drain(i..i + chunk);
            out.push(p);
            i += chunk;
        }
        if chunk == 1 {
            break;
        }
        chunk /= 2;
    }
    for i in 0..plan.operator.len() {
        let mut p = plan.clone();
        p.operator.remove(i);
        out.push(p);
    }
    for i in 0..plan.messages.len() {
        if plan.messages[i].at_ms > 0 {
            let mut p = plan.clone();
            p.messages[i].at_ms = 0;
            out.push(p);
        }
        if plan.messages[i].piece != 0 {
            let mut p = plan.clone();
            p.messages[i].piece = 0;
            out.push(p);
        }
    }
    out
}

impl Property for C09 {
    fn id(&self) -> &'static str {
        "C09"
    }
    fn level(&self) -> &'static str {
        "exploration"
    }
    fn engine(&self) -> &'static str {
        "simworld/server"
    }
    fn budget(&self, tier: Tier) -> u64 {
        match tier {
            Tier::Quick => 15_000,
            Tier::Thorough => 300_000,
        }
    }
    fn plan(&self, seed: u64, index: u64, tier: Tier) -> Value {
        serde_json::to_value(gen_c09(seed, index, tier)).unwrap()
    }
    fn execute(&self, plan: &Value, exec: &Exec, want_log: bool) -> RunResult {
        let plan: ServerPlan = serde_json::from_value(plan.clone()).expect("HARNESS: bad server plan");
        let obs = server_engine::run(&plan, exec, want_log);
        oracle_c09(&plan, &obs)
    }
    fn shrink(&self, plan: &Value) -> Vec<Value> {
        let plan: ServerPlan = serde_json::from_value(plan.clone()).unwrap();
        shrink_server_plan(&plan)
            .into_iter()
            .map(|p| serde_json::to_value(p).unwrap())
            .collect()
    }
    fn rule(&self) -> String {
        "one server (authoritative-only over a zone directory and a hosts directory, or recursive over a small correct universe) started through hook H7; 5..40 messages from as many clients, overlapping in time: valid queries over all header flag/opcode combinations, 0/1/2/3 questions, known and unknown types and classes, random bytes of 0/1/2/3/11/12/13/40/512/513/700 bytes, truncations, bit flips, padding beyond 512 bytes, self-pointers; over TCP with the length prefix right, too large, too small, zero, bodies dribbled in 1/2/7-byte pieces, cut anywhere, half-close, close, reset; record sets above and near the 512-byte limit; a wildcard alias matched 1-3 labels down; the environment failing a recv_from on the listening UDP socket, a send_to of a reply or an accept now and then (the message concerned may then go unanswered, nothing else). Oracle: framing/triage reference plus differential against dns_resolver::resolve for authoritative-only runs; both listeners alive and probe queries answered at the end. Non-trivial = the run mixes well-formed and malformed messages; distinct = distinct sequence of (transport, message kind, replies)".into()
    }
    fn assumptions(&self) -> Vec<String> {
        vec![
            "the wire decoder defines 'parseable' (C03 is not claimed)".into(),
            "unparseable input with the QR bit set: no reply or one FORMERR are both accepted".into(),
            "zero questions: any RCODE, exactly one well-framed reply".into(),
            "a client that closed or reset before the reply may see nothing".into(),
            "ANY replies whose full encoding is within 500..524 bytes: TC either way (HashMap-ordered name compression); for every other type TC is judged exactly, with record sets calibrated to 510..514 bytes".into(),
            "for recursive servers only framing, header echo, RA and answer-section owners are judged".into(),
        ]
    }
    fn components(&self) -> Value {
        json!({
            "real": ["resolved main.rs: listen_udp_task, listen_tcp_task, handle_raw_message, triage, resolve_and_build_response, reload_task, prune_cache_task", "resolved::fs::load_zone_configuration", "dns_resolver::util::net framing", "dns_resolver::resolve", "zone and hosts parsers", "tokio mpsc/RwLock/select!"],
            "stub": ["main(): CLI parsing, logging set-up, Prometheus endpoint (verif::start repeats its wiring)", "UDP/TCP sockets", "file access primitives", "SIGUSR1", "clients", "upstream servers"],
        })
    }
}

// ======================================================================= C19

pub struct C19;

const C19_APEXES: [&str; 3] = ["v.test.", "w.test.", "x.test."];

fn c19_zone_content(apex: &str, version: u32, extra: bool) -> String {
    let h = |s: &str| child_name(s, apex);
    let mut recs = vec![
        Rec::new(&h("ver"), &format!("TXT v{version}"), 300),
        Rec::new(&h("www"), &format!("A 10.{}.0.1", version % 250), 300),
        Rec::new(&h("www"), &format!("A 10.{}.0.2", version % 250), 300),
        Rec::new(&h("alias"), &format!("CNAME {}", h("www")), 300),
    ];
    if extra {
        recs.push(Rec::new(&h(&format!("only{version}")), &format!("A 10.{}.9.9", version % 250), 300));
    }
    if version % 3 == 0 {
        recs.push(Rec {
            owner: h("w"),
            wild: true,
            data: format!("TXT wild-v{version}"),
            ttl: 300,
        });
    }
    let soa = format!("SOA ns.{apex} admin.{apex} {version} 3600 600 86400 60");
    zone_text(Some((apex, &soa)), &recs)
}

fn c19_corrupt(r: &mut Rng, apex: &str) -> String {
    match r.below(5) {
        0 => format!("{apex} 300 IN SOA ns.{apex} admin.{apex} 1 3600 600 86400 60\nwww.{apex} 300 IN A not-an-address\n"),
        1 => format!("{apex} 300 IN SOA ns.{apex} admin.{apex} 1 3600 600 86400 60\nwww.{apex} 300 IN TXT ( unbalanced\n"),
        2 => "$INCLUDE other.zone\n".to_string(),
        3 => format!("{apex} 300 IN SOA ns.{apex} admin.{apex} 1 3600 600 86400 60\nwww.elsewhere.invalid. 300 IN A 10.0.0.1\n"),
        _ => format!("{apex} 300 IN SOA ns.{apex} admin.{apex} 1 3600 600 86400 60\n{apex} 300 IN SOA ns.{apex} admin.{apex} 2 3600 600 86400 60\n"),
    }
}

fn gen_c19(seed: u64, _index: u64, tier: Tier) -> ServerPlan {
    use crate::server_engine::{OperatorAction, OperatorStep};
    let mut r = Rng::new(seed);
    let n_zones = r.range(1, 3) as usize;
    let mut id: u16 = 100;
    let mut files: Vec<FileSpec> = Vec::new();
    let mut zone_paths: Vec<(String, String)> = Vec::new(); // (path, apex)
    let mut version = 1u32;
    for (i, apex) in C19_APEXES.iter().enumerate().take(n_zones) {
        let explicit = i == 0 && r.chance(0.4);
        let path = if explicit {
            format!("explicit/{}.zone", apex.trim_end_matches('.'))
        } else {
            format!("zones/{:02}-{}.zone", 10 * (i + 1), apex.trim_end_matches('.'))
        };
        files.push(FileSpec {
            path: path.clone(),
            content: c19_zone_content(apex, version, false),
        });
        zone_paths.push((path, (*apex).to_string()));
    }
    files.push(FileSpec {
        path: "hosts/10-hosts".into(),
        content: format!("192.168.{version}.1 printer.lan\n"),
    });
    let args = ServerArgs {
        zone_file: zone_paths.iter().filter(|(p, _)| p.starts_with("explicit/")).map(|(p, _)| p.clone()).collect(),
        zones_dir: vec!["zones".into()],
        hosts_file: Vec::new(),
        hosts_dir: vec!["hosts".into()],
    };
    let n_phases = match tier {
        Tier::Quick => r.range(1, 4),
        Tier::Thorough => r.range(1, 6),
    };
    let mut operator: Vec<OperatorStep> = Vec::new();
    let mut messages: Vec<MsgPlan> = Vec::new();
    let mut present: Vec<(String, String)> = zone_paths.clone();
    let mut removed: Vec<(String, String)> = Vec::new();
    let phase_len = 2_000u64;
    let mut ask = |at_ms: u64, r: &mut Rng, messages: &mut Vec<MsgPlan>, id: &mut u16| {
        let apex = *r.pick(&C19_APEXES);
        let (name, qtype) = match r.below(7) {
            0 | 1 => (child_name("ver", apex), "TXT"),
            2 => (child_name("www", apex), "A"),
            3 => (child_name("alias", apex), "A"),
            4 => (child_name(&format!("only{}", r.range(1, 6)), apex), "A"),
            5 => ("printer.lan.".to_string(), "A"),
            _ => (child_name("x.w", apex), "TXT"),
        };
        *id += 1;
        let mut q = Message::from_question(*id, question(&name, qtype));
        q.header.recursion_desired = r.chance(0.3);
        messages.push(MsgPlan {
            at_ms,
            proto: if r.chance(0.25) { "tcp".into() } else { "udp".into() },
            bytes_hex: hex(&q.to_octets().expect("HARNESS: query")),
            prefix: None,
            cut_at: None,
            piece: 0,
            piece_gap_ms: 0,
            after: "wait".into(),
            listen_ms: 1_500,
            what: format!("query {name} {qtype}"),
        });
    };
    for _ in 0..r.range(1, 3) {
        ask(r.range(0, 300), &mut r, &mut messages, &mut id);
    }
    for phase in 0..n_phases {
        let t0 = 500 + phase * phase_len;
        version += 1;
        // 1..2 edits, then the signal
        for _ in 0..r.range(1, 2) {
            let action = match r.below(10) {
                0..=3 if !present.is_empty() => {
                    let (p, a) = r.pick(&present).clone();
                    OperatorAction::Write { path: p, content: c19_zone_content(&a, version, r.chance(0.5)) }
                }
                4 | 5 if !present.is_empty() => {
                    let (p, a) = r.pick(&present).clone();
                    OperatorAction::Write { path: p, content: c19_corrupt(&mut r, &a) }
                }
                6 if !present.is_empty() => {
                    let i = r.below(present.len() as u64) as usize;
                    let (p, a) = present.remove(i);
                    removed.push((p.clone(), a));
                    OperatorAction::Remove { path: p }
                }
                7 if !removed.is_empty() => {
                    let i = r.below(removed.len() as u64) as usize;
                    let (p, a) = removed.remove(i);
                    present.push((p.clone(), a.clone()));
                    OperatorAction::Write { path: p, content: c19_zone_content(&a, version, true) }
                }
                8 if r.chance(0.35) && present.iter().any(|(p, _)| p.starts_with("zones/")) => {
                    // the zones directory is emptied (every file in it removed at
                    // once): a valid configuration - those zones are gone
                    let gone: Vec<(String, String)> = present.iter().filter(|(p, _)| p.starts_with("zones/")).cloned().collect();
                    present.retain(|(p, _)| !p.starts_with("zones/"));
                    let (last, rest) = gone.split_last().expect("non-empty");
                    for (p, a) in rest {
                        removed.push((p.clone(), a.clone()));
                        operator.push(OperatorStep { at_ms: t0, action: OperatorAction::Remove { path: p.clone() } });
                    }
                    removed.push(last.clone());
                    OperatorAction::Remove { path: last.0.clone() }
                }
                8 => OperatorAction::Write {
                    path: format!("hosts/{:02}-hosts", r.range(10, 30)),
                    content: if r.chance(0.8) {
                        format!("192.168.{}.1 printer.lan\n", version % 250)
                    } else {
                        "not-an-address printer.lan\n".to_string()
                    },
                },
                _ => {
                    // a new file for an apex (in the directory)
                    let apex = *r.pick(&C19_APEXES);
                    let p = format!("zones/{:02}-{}-extra.zone", r.range(40, 60), apex.trim_end_matches('.'));
                    if !present.iter().any(|(q, _)| *q == p) {
                        present.push((p.clone(), apex.to_string()));
                    }
                    OperatorAction::Write { path: p, content: c19_zone_content(apex, version, true) }
                }
            };
            // a slow writer: the file is first emptied, then holds a prefix, then
            // everything - and the signal (at t0 + 5) may come before it is done
            if let OperatorAction::Write { path, content } = &action {
                if content.len() > 40 && r.chance(0.2) {
                    let cut = r.range(1, content.len() as u64 - 1) as usize;
                    let cut = (0..=cut).rev().find(|i| content.is_char_boundary(*i)).unwrap_or(0);
                    let d1 = *r.pick(&[1u64, 3, 6, 10]);
                    let d2 = d1 + *r.pick(&[1u64, 3, 6, 30]);
                    operator.push(OperatorStep { at_ms: t0, action: OperatorAction::Write { path: path.clone(), content: String::new() } });
                    operator.push(OperatorStep { at_ms: t0 + d1, action: OperatorAction::Write { path: path.clone(), content: content[..cut].to_string() } });
                    operator.push(OperatorStep { at_ms: t0 + d2, action });
                    continue;
                }
            }
            operator.push(OperatorStep { at_ms: t0, action });
        }
        operator.push(OperatorStep { at_ms: t0 + 5, action: OperatorAction::Signal });
        if r.chance(0.25) {
            operator.push(OperatorStep { at_ms: t0 + 5 + r.range(0, 30), action: OperatorAction::Signal });
        }
        // the operator is quick: another edit and another signal while the reload
        // just asked for may still be reading files
        if !present.is_empty() && r.chance(0.35) {
            let mut at = t0 + 5;
            for _ in 0..r.range(1, 2) {
                version += 1;
                at += *r.pick(&[1u64, 2, 3, 5, 8, 13, 21, 34, 55]);
                let (p, a) = r.pick(&present).clone();
                operator.push(OperatorStep {
                    at_ms: at,
                    action: OperatorAction::Write { path: p, content: c19_zone_content(&a, version, r.chance(0.5)) },
                });
                at += *r.pick(&[1u64, 2, 5]);
                operator.push(OperatorStep { at_ms: at, action: OperatorAction::Signal });
            }
        }
        operator.push(OperatorStep { at_ms: t0 + phase_len - 100, action: OperatorAction::Snapshot });
        // queries before, during and after the reload
        for _ in 0..r.range(2, 8) {
            let off = *r.pick(&[0u64, 3, 5, 6, 8, 12, 20, 40, 80, 200, 600, 1200]);
            let at = if r.chance(0.2) { t0.saturating_sub(r.range(1, 50)) } else { t0 + off };
            ask(at, &mut r, &mut messages, &mut id);
        }
    }
    // sometimes the server also forwards: requests for names it does not own
    // wait for a slow forwarder while holding the configuration's read lock,
    // so a reload finishes loading while requests are in flight
    let forwarding = r.chance(0.4);
    let mut universe = Universe::default();
    if forwarding {
        let opts = GenOpts { max_depth: 1, max_zones: 3, ttl_choices: vec![300], ..GenOpts::default() };
        universe = universe::generate(&mut r, &opts);
        let signal_times: Vec<u64> = operator
            .iter()
            .filter(|s| matches!(s.action, OperatorAction::Signal))
            .map(|s| s.at_ms)
            .collect();
        for (i, t) in signal_times.iter().enumerate() {
            for k in 0..r.range(1, 3) {
                id += 1;
                let name = format!("slow{i}x{k}.com.");
                let mut q = Message::from_question(id, question(&name, "A"));
                q.header.recursion_desired = true;
                messages.push(MsgPlan {
                    at_ms: t.saturating_sub(r.range(0, 30)) + r.range(0, 40),
                    proto: "udp".into(),
                    bytes_hex: hex(&q.to_octets().expect("HARNESS: query")),
                    prefix: None,
                    cut_at: None,
                    piece: 0,
                    piece_gap_ms: 0,
                    after: "wait".into(),
                    // four network legs of up to 300 ms each, plus a wait for
                    // the configuration lock behind a reload
                    listen_ms: 6_000,
                    what: format!("holder query {name} A (forwarded, slow)"),
                });
            }
        }
        // the local questions must not wander upstream: no recursion desired
        for m in &mut messages {
            if !m.what.starts_with("holder") {
                let mut bytes = unhex(&m.bytes_hex);
                if bytes.len() > 2 {
                    bytes[2] &= 0xfe;
                }
                m.bytes_hex = hex(&bytes);
            }
        }
    }
    let mut faults = BTreeMap::new();
    let mut params = BTreeMap::new();
    params.insert("fs.latency.max_ms".into(), *r.pick(&[0u64, 5, 20, 60]));
    faults.insert("fs.read_delay".into(), 0.6);
    faults.insert("fs.list_delay".into(), 0.6);
    faults.insert("fs.list_order".into(), 0.5);
    faults.insert("udp.recv_error".into(), *r.pick(&[0.0, 0.0, 0.1]));
    faults.insert("udp.send_error".into(), *r.pick(&[0.0, 0.0, 0.05]));
    faults.insert("tcp.accept_error".into(), *r.pick(&[0.0, 0.0, 0.05]));
    faults.insert("fs.read_error".into(), *r.pick(&[0.0, 0.0, 0.05, 0.2]));
    faults.insert("fs.list_error".into(), *r.pick(&[0.0, 0.0, 0.05]));
    let max_extra = if forwarding { *r.pick(&[49u64, 149, 299]) } else { *r.pick(&[0u64, 4, 19]) };
    params.insert("net.latency.max_extra_ms".into(), max_extra);
    if max_extra > 0 {
        faults.insert("udp.delay".into(), if forwarding { 1.0 } else { 0.7 });
        faults.insert("tcp.delay".into(), 0.7);
    }
    // the operator acts in time order (steps at one instant keep the order they were planned in)
    operator.sort_by_key(|s| s.at_ms);
    ServerPlan {
        knobs: ServerKnobsPlan {
            authoritative_only: !forwarding,
            forwarding,
            protocol_mode: "only-v4".into(),
            cache_size: 512,
            upstream: ServerKnobs::default(),
            faults,
            params,
        },
        universe,
        dirs: vec!["zones".into(), "hosts".into(), "explicit".into(), "zones/subdir".into()],
        files,
        args,
        messages,
        operator,
        probes: vec![("ver.v.test.".into(), "TXT".into())],
    }
}

/// Run the loader in isolation over exactly the results one load was given.
fn replay_load(seed: u64, root: &std::path::Path, args: &ServerArgs, events: &[simseam::fs::FsEvent]) -> Option<Zones> {
    let rt = crate::resolve_engine::make_runtime(seed);
    let abs = |v: &Vec<String>| -> Vec<std::path::PathBuf> { v.iter().map(|p| root.join(p)).collect() };
    let (hf, hd, zf, zd) = (abs(&args.hosts_file), abs(&args.hosts_dir), abs(&args.zone_file), abs(&args.zones_dir));
    let out = rt.block_on(async {
        simseam::clock::use_tokio();
        let mut w = simseam::world::World::new(seed);
        w.fs.root = root.to_path_buf();
        w.fs.set_replay(events);
        simseam::world::install(w);
        let z = resolved::fs::load_zone_configuration(&hf, &hd, &zf, &zd).await;
        simseam::world::uninstall();
        simseam::clock::unset();
        z
    });
    drop(rt);
    out
}

fn zones_equal(a: &Zones, b: &Zones) -> Option<String> {
    for apex in C19_APEXES.iter().chain(std::iter::once(&".")) {
        let name = dn(apex);
        let za = a.get(&name).filter(|z| z.get_apex() == &name);
        let zb = b.get(&name).filter(|z| z.get_apex() == &name);
        if za != zb {
            return Some((*apex).to_string());
        }
    }
    None
}

fn oracle_c19(plan: &ServerPlan, obs: &ServerObs, seed: u64) -> RunResult {
    use simseam::fs::FsEvent;
    let mut res = RunResult {
        shape: obs.log_hash,
        log_hash: obs.log_hash,
        log_events: obs.log_events,
        sim_ms: obs.sim_ms,
        stats: obs.stats.clone(),
        taken: obs.taken.clone(),
        log_text: obs.log_text.clone(),
        ..RunResult::default()
    };
    let bump = |stats: &mut BTreeMap<String, u64>, k: &str| *stats.entry(k.to_string()).or_insert(0) += 1;
    if !obs.started {
        // an unlucky injected read error at start-up: main() would exit
        bump(&mut res.stats, "inconclusive.startup_load_failed");
        return res;
    }
    // split the file-access log into loads
    let mut loads: Vec<(u64, Vec<FsEvent>)> = vec![(0, Vec::new())];
    for e in &obs.fs_log {
        match e {
            FsEvent::Mark { at_ms } => loads.push((*at_ms, Vec::new())),
            other => loads.last_mut().unwrap().1.push(other.clone()),
        }
    }
    // the versions that must have been in force
    let mut versions: Vec<Zones> = vec![obs.versions[0].1.clone()];
    let mut swap_from: Vec<u64> = vec![0];
    for (at, events) in loads.iter().skip(1) {
        let mut expected = replay_load(seed, &obs.root, &plan.args, events);
        // independently of the loader's own error accounting: a load that met
        // an unreadable directory or file, or a file that does not parse,
        // must not produce a configuration
        let is_hosts = |p: &std::path::Path| {
            let rel = p.strip_prefix(&obs.root).unwrap_or(p).to_string_lossy().to_string();
            plan.args.hosts_file.contains(&rel) || plan.args.hosts_dir.iter().any(|d| rel.starts_with(&format!("{d}/")))
        };
        let must_fail = events.iter().any(|e| match e {
            FsEvent::List { outcome: simseam::fs::FsOutcome::Err(_), .. }
            | FsEvent::Read { outcome: simseam::fs::FsOutcome::Err(_), .. } => true,
            FsEvent::Read { path, outcome: simseam::fs::FsOutcome::Ok(text) } => {
                if is_hosts(path) {
                    dns_types::hosts::types::Hosts::deserialise(text).is_err()
                } else {
                    dns_types::zones::types::Zone::deserialise(text).is_err()
                }
            }
            _ => false,
        });
        if must_fail {
            bump(&mut res.stats, "probe.reload_met_unreadable_or_invalid_file");
            expected = None;
        } else if expected.is_none() && !events.is_empty() {
            // ... and the other way round: every directory could be listed, every
            // file read, and every file parses - then there IS a configuration
            // (an emptied directory is a valid one), whatever the loader says
            res.violations.push(Violation::new("c19.valid_configuration_refused").detail(json!({
                "signal_at": at,
                "events": events.iter().map(|e| match e {
                    FsEvent::List { dir, outcome } => format!("list {} {}", dir.file_name().map_or_else(String::new, |f| f.to_string_lossy().to_string()), match outcome { simseam::fs::FsOutcome::Ok(v) => format!("{} entries", v.len()), simseam::fs::FsOutcome::Err(k) => format!("{k:?}") }),
                    FsEvent::Read { path, outcome } => format!("read {} {}", path.file_name().map_or_else(String::new, |f| f.to_string_lossy().to_string()), match outcome { simseam::fs::FsOutcome::Ok(t) => format!("{} bytes", t.len()), simseam::fs::FsOutcome::Err(k) => format!("{k:?}") }),
                    FsEvent::Mark { .. } => String::new(),
                }).collect::<Vec<_>>(),
            })));
        }
        let prev = versions.last().unwrap().clone();
        match expected {
            Some(z) => {
                bump(&mut res.stats, "probe.reload_succeeded");
                versions.push(z);
            }
            None => {
                bump(&mut res.stats, "probe.reload_failed");
                versions.push(prev);
            }
        }
        swap_from.push(*at);
    }
    // quiescent snapshots: the configuration behind the lock is the expected one
    let snapshots = &obs.versions[1..];
    let mut quiesce_of: Vec<u64> = vec![0; versions.len()];
    for k in 1..versions.len() {
        // first snapshot after the k-th signal delivery
        quiesce_of[k] = snapshots
            .iter()
            .map(|(t, _)| *t)
            .find(|t| *t > swap_from[k])
            .unwrap_or(u64::MAX);
    }
    for (t, snap) in snapshots {
        let k = swap_from.iter().filter(|s| **s <= *t).count() - 1;
        // a reload signalled within the last moments may still be running
        if let Some(apex) = zones_equal(snap, &versions[k]) {
            let stale = k > 0 && zones_equal(snap, &versions[k - 1]).is_none();
            let failed_load_applied = loads.get(k).is_some_and(|(_, ev)| {
                ev.iter().any(|e| matches!(e, FsEvent::Read { outcome: simseam::fs::FsOutcome::Err(_), .. } | FsEvent::List { outcome: simseam::fs::FsOutcome::Err(_), .. }))
            });
            res.violations.push(
                Violation::new("c19.configuration_not_as_expected")
                    .fact("still_previous_version", stale)
                    .fact("load_had_read_error", failed_load_applied)
                    .detail(json!({
                        "at_ms": t, "after_reload": k, "differs_at_apex": apex,
                        "load": loads.get(k).map(|(at, ev)| json!({"signal_at": at, "events": ev.iter().map(|e| match e {
                            FsEvent::List { dir, outcome } => format!("list {} {}", dir.file_name().map_or_else(String::new, |f| f.to_string_lossy().to_string()), match outcome { simseam::fs::FsOutcome::Ok(v) => format!("{} entries", v.len()), simseam::fs::FsOutcome::Err(k) => format!("{k:?}") }),
                            FsEvent::Read { path, outcome } => format!("read {} {}", path.file_name().map_or_else(String::new, |f| f.to_string_lossy().to_string()), match outcome { simseam::fs::FsOutcome::Ok(s) => format!("{} bytes", s.len()), simseam::fs::FsOutcome::Err(k) => format!("{k:?}") }),
                            FsEvent::Mark { .. } => String::new(),
                        }).collect::<Vec<_>>()})),
                    })),
            );
        }
    }
    // the last word: once the operator's last signal came after the last edit, and
    // the load that signal started met no fault, the configuration in force is what
    // the files say now - whatever the server did or did not read
    for (t, snap) in snapshots {
        use crate::server_engine::OperatorAction;
        let before: Vec<&crate::server_engine::OperatorStep> = plan.operator.iter().filter(|s| s.at_ms <= *t).collect();
        let last_signal = before.iter().filter(|s| matches!(s.action, OperatorAction::Signal)).map(|s| s.at_ms).max();
        let last_edit = before
            .iter()
            .filter(|s| matches!(s.action, OperatorAction::Write { .. } | OperatorAction::Remove { .. } | OperatorAction::Mkdir { .. }))
            .map(|s| s.at_ms)
            .max();
        let Some(t_sig) = last_signal else { continue };
        if last_edit.is_some_and(|e| e >= t_sig) {
            continue;
        }
        // the load that signal started: after the last delivery at or after it
        let Some((_, events)) = loads.iter().skip(1).rev().find(|(at, _)| *at >= t_sig && *at <= *t) else {
            continue;
        };
        let faulty = events.iter().any(|e| {
            matches!(
                e,
                FsEvent::List { outcome: simseam::fs::FsOutcome::Err(_), .. }
                    | FsEvent::Read { outcome: simseam::fs::FsOutcome::Err(_), .. }
            )
        });
        if faulty {
            continue;
        }
        // the files as they are at the snapshot
        let mut files: BTreeMap<String, String> = plan.files.iter().map(|f| (f.path.clone(), f.content.clone())).collect();
        for s in &before {
            match &s.action {
                OperatorAction::Write { path, content } => {
                    files.insert(path.clone(), content.clone());
                }
                OperatorAction::Remove { path } => {
                    files.remove(path);
                }
                _ => {}
            }
        }
        let mut truth_events: Vec<FsEvent> = Vec::new();
        for d in plan.args.zones_dir.iter().chain(plan.args.hosts_dir.iter()) {
            let mut entries: Vec<std::path::PathBuf> = files
                .keys()
                .filter(|p| p.strip_prefix(&format!("{d}/")).is_some_and(|rest| !rest.contains('/')))
                .map(|p| obs.root.join(p))
                .collect();
            entries.sort();
            truth_events.push(FsEvent::List { dir: obs.root.join(d), outcome: simseam::fs::FsOutcome::Ok(entries) });
        }
        for (p, c) in &files {
            truth_events.push(FsEvent::Read { path: obs.root.join(p), outcome: simseam::fs::FsOutcome::Ok(c.clone()) });
        }
        let Some(truth) = replay_load(seed, &obs.root, &plan.args, &truth_events) else {
            // the files do not load: the previous configuration stays, judged above
            continue;
        };
        bump(&mut res.stats, "probe.snapshot_compared_with_the_files_themselves");
        if let Some(apex) = zones_equal(snap, &truth) {
            res.violations.push(
                Violation::new("c19.last_edit_never_went_live")
                    .fact("reload_read_nothing", events.is_empty())
                    .detail(json!({
                        "at_ms": t, "last_signal_at": t_sig, "last_edit_at": last_edit, "differs_at_apex": apex,
                        "files_read_by_the_last_reload": events.len(),
                    })),
            );
        }
    }
    // every reply is one version's answer
    for o in &obs.messages {
        let m = &plan.messages[o.index];
        if m.what.starts_with("holder") {
            // a forwarded request: only there to be in flight; it must be answered
            bump(&mut res.stats, "probe.forwarded_request_in_flight_around_a_reload");
            if o.replies.len() != 1 && !(o.reply_send_failed || o.aborted_at_accept) {
                res.violations.push(Violation::new("c19.forwarded_request_unanswered").detail(json!({
                    "message": m.what, "replies": o.replies.len()
                })));
            }
            continue;
        }
        let a = o.sent_ms;
        let b = o.replies.first().map_or(a + m.listen_ms, |(t, _)| *t);
        // "keeps answering throughout": a server that only consults local data
        // answers a datagram at once, reload or no reload - in virtual time, within
        // the two network delays (nothing is in flight that could hold the
        // configuration lock for longer than the swap itself)
        // (not in runs where the environment failed a receive of the server's: a
        // server may pause for a moment after such a failure)
        let recv_failed = obs.stats.get("fired.udp.recv_error").copied().unwrap_or(0) > 0;
        // (a forwarding server too: the local questions are sent with RD clear and
        // never travel upstream, whatever else is in flight)
        if m.proto == "udp" && !recv_failed {
            if let Some((t, _)) = o.replies.first() {
                let one_way = plan.knobs.params.get("net.latency.min_ms").copied().unwrap_or(1)
                    + plan.knobs.params.get("net.latency.max_extra_ms").copied().unwrap_or(0);
                let bound = 2 * one_way + 2;
                if t.saturating_sub(a) > bound {
                    let during = loads.iter().skip(1).any(|(at, _)| *at <= *t && *at + 2_000 > a);
                    res.violations.push(
                        Violation::new("c19.reply_held_up")
                            .fact("around_a_reload", during)
                            .fact("forwarded_request_in_flight", plan.knobs.forwarding)
                            .detail(json!({
                                "message": m.what, "sent_ms": a, "reply_ms": t, "bound_ms": bound,
                            })),
                    );
                }
            }
        }
        let hi = swap_from.iter().filter(|s| **s <= b).count() - 1;
        let lo = (0..versions.len()).rev().find(|k| quiesce_of[*k] <= a).unwrap_or(0);
        let mut last: Vec<Violation> = Vec::new();
        let mut ok = false;
        for k in lo..=hi {
            let mut vs = Vec::new();
            let mut scratch = BTreeMap::new();
            judge_message(plan, &versions[k], m, o, &mut vs, &mut scratch, true);
            if vs.is_empty() {
                ok = true;
                break;
            }
            last = vs;
        }
        if hi > lo {
            bump(&mut res.stats, "probe.query_overlaps_reload");
        }
        if !ok {
            for mut v in last {
                let mixed = v.kind == "c09.sections_differ_from_resolver";
                v.kind = format!("c19.reply_matches_no_version_in_force.{}", v.kind.trim_start_matches("c09."));
                v = v.fact("candidates", (hi - lo + 1) as u64).fact("sections_differ", mixed);
                res.violations.push(v);
            }
        }
    }
    let (tcp, udp, reload, prune) = obs.tasks_alive;
    if !(tcp && udp && reload && prune) {
        res.violations.push(Violation::new("c19.server_task_died").detail(json!({
            "tcp_listener": tcp, "udp_listener": udp, "reload_task": reload, "prune_task": prune
        })));
    }
    for p in &obs.probes {
        if p.replies.len() != 1 && !(p.reply_send_failed || p.aborted_at_accept) {
            res.violations.push(Violation::new("c19.not_serving_after_run").detail(json!({"probe": p.index})));
        }
    }
    if obs.signals_raised > obs.signals_delivered {
        bump(&mut res.stats, "probe.signal_coalesced_run");
    }
    res.nontrivial = loads.len() > 1;
    res.shape = simseam::hash_bytes(
        obs.log_hash,
        format!("{:?}", plan.operator.iter().map(|s| format!("{:?}", s.action).chars().take(12).collect::<String>()).collect::<Vec<_>>()).as_bytes(),
    );
    res.sample = Some(json!({
        "files": plan.files.iter().map(|f| f.path.clone()).collect::<Vec<_>>(),
        "operator": plan.operator.iter().take(12).map(|s| format!("@{}ms {}", s.at_ms, match &s.action {
            crate::server_engine::OperatorAction::Write { path, content } => format!("write {path} ({} bytes)", content.len()),
            crate::server_engine::OperatorAction::Remove { path } => format!("remove {path}"),
            crate::server_engine::OperatorAction::Mkdir { path } => format!("mkdir {path}"),
            crate::server_engine::OperatorAction::Signal => "SIGUSR1".into(),
            crate::server_engine::OperatorAction::Snapshot => "snapshot".into(),
        })).collect::<Vec<_>>(),
        "queries": plan.messages.len(),
    }));
    res
}

impl Property for C19 {
    fn id(&self) -> &'static str {
        "C19"
    }
    fn level(&self) -> &'static str {
        "fault_enumeration"
    }
    fn engine(&self) -> &'static str {
        "simworld/server"
    }
    fn budget(&self, tier: Tier) -> u64 {
        match tier {
            Tier::Quick => 10_000,
            Tier::Thorough => 200_000,
        }
    }
    fn plan(&self, seed: u64, index: u64, tier: Tier) -> Value {
        serde_json::to_value(gen_c19(seed, index, tier)).unwrap()
    }
    fn execute(&self, plan: &Value, exec: &Exec, want_log: bool) -> RunResult {
        let plan: ServerPlan = serde_json::from_value(plan.clone()).expect("HARNESS: bad server plan");
        let obs = server_engine::run_keep(&plan, exec, want_log, true);
        let res = oracle_c19(&plan, &obs, exec.seed());
        let _ = std::fs::remove_dir_all(&obs.root);
        res
    }
    fn shrink(&self, plan: &Value) -> Vec<Value> {
        let plan: ServerPlan = serde_json::from_value(plan.clone()).unwrap();
        shrink_server_plan(&plan)
            .into_iter()
            .map(|p| serde_json::to_value(p).unwrap())
            .collect()
    }
    fn rule(&self) -> String {
        "an authoritative-only server over -z/-Z/-A arguments; 1..6 phases, each 1..2 operator edits (replace a zone file with a new version, corrupt it in five ways, remove it, restore it, add a new file to the directory, add or corrupt a hosts file; whole-file replacement by rename, one edit in five by a slow writer that leaves the file empty, then with a prefix, then whole, over 2..40 ms) followed by SIGUSR1 (sometimes twice; in a third of the phases 1..2 further edit+signal pairs 1..55 ms apart, while the first reload may still be reading), with UDP and TCP queries 50 ms before to 1.2 s after the signal and injected read and listing errors and latencies in the file seam; record data carries the configuration version. Oracle: for every reload the expected configuration is what load_zone_configuration gives when run in isolation over exactly the results that reload was given (none = stay); the configuration behind the lock at every quiescent point equals it; a quiescent snapshot taken after the last signal followed the last edit (and whose last load met no injected fault) equals a fault-free load of the files as they then are; every reply equals the answer of one version that was in force between its receipt and its dispatch; injected recv_from/send_to/accept failures of the server's sockets; listeners alive and probes answered. Non-trivial = at least one SIGUSR1 delivered; distinct = distinct (operator script shape, event log)".into()
    }
    fn assumptions(&self) -> Vec<String> {
        vec![
            "files are edited by whole-file replacement; a file edited while a reload is reading is read in whichever version the read met (the oracle uses the bytes actually read)".into(),
            "the loader and the resolver are the reference for what a version answers (C12 judges merging)".into(),
            "a reload is expected to be complete 1.9 s after its signal (authoritative-only requests hold the read lock for no virtual time)".into(),
            "tokio's RwLock and mpsc are trusted".into(),
        ]
    }
    fn components(&self) -> Value {
        json!({
            "real": ["resolved main.rs: reload_task, listen_udp_task, listen_tcp_task, resolve_and_build_response (zones read lock), prune_cache_task", "resolved::fs::load_zone_configuration", "zone and hosts parsers, Zones::insert_merge"],
            "stub": ["SIGUSR1 (simseam::signal, coalescing)", "file access primitives with injected errors/latency", "operator and clients (harness actors)", "sockets", "main()'s wiring (verif::start)"],
        })
    }
}
