//! Properties decided on the simworld/server engine: C09 (framing, triage,
//! survival) and C19 (reload swaps everything or nothing).

use std::collections::BTreeMap;

use dns_resolver::cache::SharedCache;
use dns_resolver::util::types::{ProtocolMode, ResolvedRecord};
use dns_types::protocol::types::*;
use dns_types::zones::types::Zones;
use serde_json::{json, Value};

use crate::netactors::ServerKnobs;
use crate::runner::{Exec, Property, RunResult, Tier, Violation};
use crate::server_engine::{
    self, hex, unhex, FileSpec, MsgObs, MsgPlan, ServerArgs, ServerKnobsPlan, ServerObs, ServerPlan,
};
use crate::universe::{self, child_name, GenOpts, Rec, Universe};
use crate::util::{dn, question, show_qtype, show_rr, Rng};

/// Render records as a zone file in the plain `<owner> <ttl> IN <type> <rdata>` form.
pub fn zone_text(soa: Option<(&str, &str)>, recs: &[Rec]) -> String {
    let mut out = String::new();
    if let Some((apex, soa)) = soa {
        out.push_str(&format!("{apex} 300 IN {soa}\n"));
    }
    for r in recs {
        let owner = if r.wild {
            if r.owner == "." {
                "*.".to_string()
            } else {
                format!("*.{}", r.owner)
            }
        } else {
            r.owner.clone()
        };
        let data = if r.rtype() == "TXT" {
            format!("TXT \"{}\"", r.rdata())
        } else {
            r.data.clone()
        };
        out.push_str(&format!("{owner} {} IN {data}\n", r.ttl));
    }
    out
}

pub fn blocking<T>(f: impl std::future::Future<Output = T>) -> T {
    tokio::runtime::Builder::new_current_thread()
        .build()
        .expect("HARNESS: runtime")
        .block_on(f)
}

/// What the resolver itself says (authoritative-only resolution, empty cache).
pub fn resolver_says(zones: &Zones, q: &Question) -> Result<ResolvedRecord, String> {
    simseam::clock::use_manual();
    let cache = SharedCache::new();
    let (_m, r) = blocking(dns_resolver::resolve(
        false,
        ProtocolMode::OnlyV4,
        53,
        None,
        zones,
        &cache,
        q,
    ));
    simseam::clock::unset();
    r.map_err(|e| e.to_string())
}

/// Sections, AA and RCODE the server must send for a resolver result.
pub fn expected_sections(
    r: &Result<ResolvedRecord, String>,
) -> (Vec<ResourceRecord>, Vec<ResourceRecord>, bool, Rcode) {
    let (an, au, aa, rc) = match r {
        Ok(ResolvedRecord::Authoritative { rrs, soa_rr }) => {
            (rrs.clone(), vec![soa_rr.clone()], true, Rcode::NoError)
        }
        Ok(ResolvedRecord::AuthoritativeNameError { soa_rr }) => {
            (Vec::new(), vec![soa_rr.clone()], true, Rcode::NameError)
        }
        Ok(ResolvedRecord::NonAuthoritative { rrs, soa_rr }) => (
            rrs.clone(),
            soa_rr.iter().cloned().collect(),
            false,
            Rcode::NoError,
        ),
        Err(_) => (Vec::new(), Vec::new(), false, Rcode::NoError),
    };
    if an.is_empty() && au.is_empty() && rc == Rcode::NoError {
        (an, au, false, Rcode::ServerFailure)
    } else {
        (an, au, aa, rc)
    }
}

fn multiset_eq(a: &[ResourceRecord], b: &[ResourceRecord]) -> bool {
    let mut x: Vec<String> = a.iter().map(show_rr).collect();
    let mut y: Vec<String> = b.iter().map(show_rr).collect();
    x.sort();
    y.sort();
    x == y
}

#[derive(Debug, Clone, PartialEq)]
pub enum Expect {
    NoReply,
    /// Either no reply or a FORMERR with this id (the property's two clauses
    /// conflict for unparseable input with the QR bit set).
    NoReplyOrFormErr(u16),
    FormErr(u16),
    NotImp(Message),
    Refused(Message),
    AnyRcode(Message),
    Resolve(Message),
}

/// Framing/triage reference on the bytes the server gets to see.
pub fn triage_reference(bytes: &[u8]) -> Expect {
    if bytes.len() < 2 {
        return Expect::NoReply;
    }
    let id = u16::from_be_bytes([bytes[0], bytes[1]]);
    match Message::from_octets(bytes) {
        Ok(m) => {
            if m.header.is_response {
                Expect::NoReply
            } else if m.header.opcode != Opcode::Standard {
                Expect::NotImp(m)
            } else if m.questions.is_empty() {
                Expect::AnyRcode(m)
            } else if m.questions.len() > 1 || m.questions[0].is_unknown() {
                Expect::Refused(m)
            } else {
                Expect::Resolve(m)
            }
        }
        Err(_) => {
            if bytes.len() >= 3 && bytes[2] & 0x80 != 0 {
                Expect::NoReplyOrFormErr(id)
            } else {
                Expect::FormErr(id)
            }
        }
    }
}

/// The bytes of a plan message as the server's framing layer should see them,
/// or `None` when no complete message arrives.  Second value: a reply cannot
/// be observed (the client went away).
pub fn framed_view(m: &MsgPlan) -> (Option<Vec<u8>>, bool, Option<u16>) {
    let payload = unhex(&m.bytes_hex);
    if m.proto == "udp" {
        let n = payload.len().min(512);
        return (Some(payload[..n].to_vec()), false, None);
    }
    let prefix = m
        .prefix
        .unwrap_or_else(|| u16::try_from(payload.len()).unwrap_or(u16::MAX));
    let mut framed = prefix.to_be_bytes().to_vec();
    framed.extend_from_slice(&payload);
    if let Some(cut) = m.cut_at {
        framed.truncate(cut.min(framed.len()));
    }
    let gone = m.after == "close" || m.after == "reset";
    if framed.len() < 2 {
        return (None, gone, None);
    }
    let p = usize::from(u16::from_be_bytes([framed[0], framed[1]]));
    let body = &framed[2..];
    if body.len() >= p {
        (Some(body[..p].to_vec()), gone, None)
    } else {
        // incomplete: on half-close the server sees EOF and may answer FORMERR
        let id = if body.len() >= 2 {
            Some(u16::from_be_bytes([body[0], body[1]]))
        } else {
            None
        };
        if m.after == "half_close" {
            (None, gone, id)
        } else {
            (None, gone, None)
        }
    }
}

// ======================================================================= C09

pub struct C09;

fn c09_zone(r: &mut Rng) -> (String, Vec<Rec>) {
    let apex = "example.test.".to_string();
    let h = |s: &str| child_name(s, &apex);
    let mut recs = vec![
        Rec::new(&apex, &format!("NS {}", h("ns")), 300),
        Rec::new(&h("ns"), "A 192.0.2.53", 300),
        Rec::new(&h("www"), "A 192.0.2.10", 300),
        Rec::new(&h("www"), "AAAA 2001:db8::10", 300),
        Rec::new(&h("mail"), &format!("MX 10 {}", h("www")), 300),
        Rec::new(&h("txt"), "TXT hello", 300),
        Rec::new(&h("alias"), &format!("CNAME {}", h("www")), 300),
        Rec::new(&h("alias2"), &format!("CNAME {}", h("alias")), 300),
        Rec::new(&h("dangling"), &format!("CNAME {}", h("nowhere")), 300),
        Rec::new(&h("deleg"), &format!("NS {}", child_name("ns", &h("deleg"))), 300),
        Rec::new(&child_name("ns", &h("deleg")), "A 192.0.2.54", 300),
        Rec {
            owner: h("w"),
            wild: true,
            data: "A 192.0.2.99".into(),
            ttl: 300,
        },
        Rec::new(&child_name("leaf", &h("mid")), "TXT deep", 300),
    ];
    // a record set too large for one UDP datagram
    let n_big = r.range(30, 60);
    for i in 0..n_big {
        recs.push(Rec::new(&h("big"), &format!("A 198.51.100.{}", 1 + i), 300));
    }
    // ... and one that ends within a few bytes of the limit
    let n_edge = r.range(24, 30);
    for i in 0..n_edge {
        recs.push(Rec::new(&h("edge"), &format!("A 198.51.101.{}", 1 + i), 300));
    }
    (apex, recs)
}

fn gen_c09(seed: u64, _index: u64, tier: Tier) -> ServerPlan {
    let mut r = Rng::new(seed);
    let authoritative_only = r.chance(0.7);
    let (apex, recs) = c09_zone(&mut r);
    let soa = format!("SOA ns.{apex} admin.{apex} 1 3600 600 86400 60");
    let mut files = vec![FileSpec {
        path: "zones/example.zone".into(),
        content: zone_text(Some((&apex, &soa)), &recs),
    }];
    files.push(FileSpec {
        path: "hosts/blocklist".into(),
        content: "0.0.0.0 ads.example.net tracker.example.net\n192.168.0.9 printer.lan\n".into(),
    });
    let u = if authoritative_only {
        Universe::default()
    } else {
        let opts = GenOpts {
            max_depth: 2,
            max_zones: 4,
            ttl_choices: vec![300],
            ..GenOpts::default()
        };
        let u = universe::generate(&mut r, &opts);
        files.push(FileSpec {
            path: "zones/root.hints".into(),
            content: zone_text(None, &universe::root_hints(&u)),
        });
        u
    };
    let names_local = ["www", "mail", "txt", "alias", "alias2", "dangling", "deleg", "below.deleg", "x.w", "mid", "leaf.mid", "big", "edge", "nothing"];
    let mut names: Vec<String> = names_local.iter().map(|n| child_name(n, &apex)).collect();
    names.push(apex.clone());
    names.push("ads.example.net.".into());
    names.push("printer.lan.".into());
    if !authoritative_only {
        for z in u.zones.iter().skip(1) {
            names.push(child_name("www", &z.apex));
            names.push(child_name("nonexistent", &z.apex));
        }
    }
    let qtypes: [u16; 12] = [1, 28, 15, 16, 2, 6, 5, 255, 252, 253, 99, 65280];
    let n_msgs = match tier {
        Tier::Quick => r.range(5, 25),
        Tier::Thorough => r.range(5, 40),
    } as usize;
    let horizon = *r.pick(&[0u64, 5, 50, 500]);
    let listen_ms = if authoritative_only { 8_000 } else { 75_000 };
    let mut messages = Vec::new();
    for _ in 0..n_msgs {
        let tcp = r.chance(0.4);
        let id = r.below(65536) as u16;
        let mut what;
        // a valid query as the base
        let qname = r.pick(&names).clone();
        let qtype_num = *r.pick(&qtypes);
        let mut q = Message::from_question(
            id,
            Question {
                name: dn(&qname),
                qtype: QueryType::from(qtype_num),
                qclass: QueryClass::Record(RecordClass::IN),
            },
        );
        q.header.recursion_desired = r.chance(0.5);
        what = format!("query {qname} {}", show_qtype(q.questions[0].qtype));
        match r.below(12) {
            0 => {
                q.header.is_response = true;
                what = format!("response-flagged {what}");
            }
            1 => {
                q.header.opcode = Opcode::from(*r.pick(&[1u8, 2, 5, 15]));
                what = format!("opcode {:?} {what}", q.header.opcode);
            }
            2 => {
                let n = r.range(0, 3);
                let extra = q.questions[0].clone();
                q.questions.clear();
                for _ in 0..n {
                    q.questions.push(extra.clone());
                }
                what = format!("{n} questions");
            }
            3 => {
                q.questions[0].qclass = QueryClass::from(*r.pick(&[3u16, 4, 255, 999]));
                what = format!("class {:?} {what}", q.questions[0].qclass);
            }
            4 => {
                q.header.is_authoritative = r.chance(0.5);
                q.header.is_truncated = r.chance(0.5);
                q.header.recursion_available = r.chance(0.5);
                q.header.rcode = Rcode::from(r.below(16) as u8);
                what = format!("odd flags {what}");
            }
            _ => {}
        }
        let mut bytes = q.to_octets().map(|b| b.to_vec()).unwrap_or_default();
        match r.below(14) {
            0 => {
                let len = *r.pick(&[0usize, 1, 2, 3, 11, 12, 13, 40, 512, 513, 700]);
                bytes = (0..len).map(|_| r.below(256) as u8).collect();
                what = format!("{len} random bytes");
            }
            1 => {
                if !bytes.is_empty() {
                    let cut = r.below(bytes.len() as u64) as usize;
                    bytes.truncate(cut);
                    what = format!("truncated at {cut}: {what}");
                }
            }
            2 => {
                if !bytes.is_empty() {
                    let pos = r.below(bytes.len() as u64) as usize;
                    bytes[pos] ^= 1 << r.below(8);
                    what = format!("bit flip at {pos}: {what}");
                }
            }
            3 => {
                let pad = r.range(1, 900) as usize;
                bytes.extend(std::iter::repeat(0u8).take(pad));
                what = format!("{pad} bytes of padding: {what}");
            }
            4 => {
                // a compression pointer to itself in the question name
                if bytes.len() > 14 {
                    bytes[12] = 0xC0;
                    bytes[13] = 12;
                    what = "self-pointer in question name".into();
                }
            }
            _ => {}
        }
        let mut m = MsgPlan {
            at_ms: r.below(horizon + 1),
            proto: if tcp { "tcp".into() } else { "udp".into() },
            bytes_hex: hex(&bytes),
            prefix: None,
            cut_at: None,
            piece: 0,
            piece_gap_ms: 0,
            after: "wait".into(),
            listen_ms,
            what,
        };
        if tcp {
            match r.below(10) {
                0 => {
                    m.prefix = Some(u16::try_from(bytes.len()).unwrap_or(0).saturating_add(r.range(1, 50) as u16));
                    m.after = (*r.pick(&["half_close", "wait", "close"])).into();
                }
                1 => {
                    m.prefix = Some(u16::try_from(bytes.len()).unwrap_or(0).saturating_sub(r.range(1, 12) as u16));
                }
                2 => m.prefix = Some(0),
                3 => {
                    m.cut_at = Some(r.below(bytes.len() as u64 + 3) as usize);
                    m.after = (*r.pick(&["half_close", "close", "reset", "wait"])).into();
                }
                4 | 5 => {
                    m.piece = *r.pick(&[1usize, 1, 2, 7]);
                    m.piece_gap_ms = *r.pick(&[0u64, 1, 3]);
                }
                6 => m.after = "half_close".into(),
                _ => {}
            }
            if m.piece == 1 && bytes.len() > 300 {
                m.piece = 16;
            }
        }
        messages.push(m);
    }
    let mut faults = BTreeMap::new();
    let mut params = BTreeMap::new();
    let max_extra = *r.pick(&[0u64, 4, 49]);
    params.insert("net.latency.max_extra_ms".into(), max_extra);
    if max_extra > 0 {
        faults.insert("udp.delay".into(), 0.7);
        faults.insert("tcp.delay".into(), 0.7);
    }
    faults.insert("tcp.segment".into(), *r.pick(&[0.0, 0.3, 0.8]));
    faults.insert("tcp.short_read".into(), *r.pick(&[0.0, 0.3, 0.8]));
    faults.insert("tcp.partial_write".into(), *r.pick(&[0.0, 0.3]));
    faults.insert("fs.list_order".into(), 0.5);
    ServerPlan {
        knobs: ServerKnobsPlan {
            authoritative_only,
            forwarding: false,
            protocol_mode: "only-v4".into(),
            cache_size: *r.pick(&[512usize, 4]),
            upstream: ServerKnobs::default(),
            faults,
            params,
        },
        universe: u,
        dirs: vec!["zones/subdir".into()],
        files,
        args: ServerArgs {
            zone_file: Vec::new(),
            zones_dir: vec!["zones".into()],
            hosts_file: Vec::new(),
            hosts_dir: vec!["hosts".into()],
        },
        messages,
        operator: Vec::new(),
        probes: vec![(child_name("www", &apex), "A".into()), (child_name("txt", &apex), "TXT".into())],
    }
}

fn header_of(bytes: &[u8]) -> Option<(u16, bool, u8, bool, bool, bool, bool, u8)> {
    if bytes.len() < 4 {
        return None;
    }
    Some((
        u16::from_be_bytes([bytes[0], bytes[1]]),
        bytes[2] & 0x80 != 0,
        (bytes[2] >> 3) & 0x0f,
        bytes[2] & 0x04 != 0,
        bytes[2] & 0x02 != 0,
        bytes[2] & 0x01 != 0,
        bytes[3] & 0x80 != 0,
        bytes[3] & 0x0f,
    ))
}

/// Owners allowed in an answer section: the question name and its alias chain.
fn answer_owners_ok(qname: &DomainName, answers: &[ResourceRecord]) -> Option<String> {
    let mut allowed = vec![qname.clone()];
    let mut changed = true;
    while changed {
        changed = false;
        for rr in answers {
            if let RecordTypeWithData::CNAME { cname } = &rr.rtype_with_data {
                if allowed.contains(&rr.name) && !allowed.contains(cname) {
                    allowed.push(cname.clone());
                    changed = true;
                }
            }
        }
    }
    answers
        .iter()
        .find(|rr| !allowed.contains(&rr.name))
        .map(show_rr)
}

/// Judge the replies to one message.
#[allow(clippy::too_many_lines)]
pub fn judge_message(
    plan: &ServerPlan,
    zones: &Zones,
    m: &MsgPlan,
    o: &MsgObs,
    vs: &mut Vec<Violation>,
    stats: &mut BTreeMap<String, u64>,
    differential: bool,
) {
    let bump = |stats: &mut BTreeMap<String, u64>, k: &str| *stats.entry(k.to_string()).or_insert(0) += 1;
    let offered = !plan.knobs.authoritative_only;
    let (view, gone, eof_id) = framed_view(m);
    let detail = |why: &str| {
        json!({
            "why": why, "message": m.what, "proto": m.proto, "bytes": m.bytes_hex.chars().take(160).collect::<String>(),
            "prefix": m.prefix, "cut_at": m.cut_at, "after": m.after,
            "replies": o.replies.iter().map(|(t, b)| format!("@{t}ms {}", hex(&b[..b.len().min(80)]))).collect::<Vec<_>>(),
            "tcp_eof": o.tcp_eof, "tcp_error": o.tcp_error,
        })
    };
    if o.connect_failed {
        vs.push(Violation::new("c09.connect_failed").detail(detail("client could not reach the server")));
        return;
    }
    if gone {
        bump(stats, "probe.client_left_before_reply");
        return;
    }
    // split what was received into messages
    let mut got: Vec<Vec<u8>> = Vec::new();
    if m.proto == "udp" {
        got = o.replies.iter().map(|(_, b)| b.clone()).collect();
        for b in &got {
            if b.len() > 512 {
                vs.push(Violation::new("c09.udp_reply_over_512").detail(detail("UDP reply longer than 512 bytes")));
            }
        }
    } else if let Some((_, blob)) = o.replies.first() {
        let mut rest: &[u8] = blob;
        while !rest.is_empty() {
            if rest.len() < 2 {
                vs.push(Violation::new("c09.tcp_framing").detail(detail("dangling byte after the last framed reply")));
                return;
            }
            let n = usize::from(u16::from_be_bytes([rest[0], rest[1]]));
            if rest.len() < 2 + n {
                vs.push(Violation::new("c09.tcp_framing").detail(detail("length prefix larger than the bytes that follow")));
                return;
            }
            got.push(rest[2..2 + n].to_vec());
            rest = &rest[2 + n..];
        }
    }
    let expect = match (&view, eof_id) {
        (Some(bytes), _) => triage_reference(bytes),
        (None, Some(id)) => Expect::FormErr(id),
        (None, None) => Expect::NoReply,
    };
    bump(stats, &format!("probe.expect_{}", match &expect {
        Expect::NoReply => "no_reply",
        Expect::NoReplyOrFormErr(_) => "no_reply_or_formerr",
        Expect::FormErr(_) => "formerr",
        Expect::NotImp(_) => "notimp",
        Expect::Refused(_) => "refused",
        Expect::AnyRcode(_) => "zero_questions",
        Expect::Resolve(_) => "resolve",
    }));
    if got.len() > 1 {
        vs.push(Violation::new("c09.more_than_one_reply").detail(detail("more than one reply to one message")));
        return;
    }
    let reply = got.first();
    match (&expect, reply) {
        (Expect::NoReply, None) | (Expect::NoReplyOrFormErr(_), None) => return,
        (Expect::NoReply, Some(_)) => {
            vs.push(Violation::new("c09.reply_to_unanswerable").detail(detail("a reply to a response-flagged or too-short message")));
            return;
        }
        (_, None) => {
            vs.push(
                Violation::new("c09.no_reply")
                    .fact("proto", m.proto.clone())
                    .detail(detail("no reply within the listening window")),
            );
            return;
        }
        _ => {}
    }
    let reply = reply.unwrap();
    let Some((id, qr, opcode, aa, tc, rd, ra, rcode)) = header_of(reply) else {
        vs.push(Violation::new("c09.reply_too_short").detail(detail("reply shorter than a header")));
        return;
    };
    if !qr {
        vs.push(Violation::new("c09.reply_without_qr").detail(detail("reply without the response flag")));
    }
    let want_id = match &expect {
        Expect::FormErr(i) | Expect::NoReplyOrFormErr(i) => *i,
        Expect::NotImp(q) | Expect::Refused(q) | Expect::AnyRcode(q) | Expect::Resolve(q) => q.header.id,
        Expect::NoReply => 0,
    };
    if id != want_id {
        vs.push(Violation::new("c09.wrong_id").detail(detail("reply ID differs from the request ID")));
        return;
    }
    match &expect {
        Expect::FormErr(_) | Expect::NoReplyOrFormErr(_) => {
            if rcode != 1 {
                vs.push(Violation::new("c09.expected_formerr").detail(detail("unparseable input not answered with FORMERR")));
            }
        }
        Expect::NotImp(q) | Expect::Refused(q) | Expect::AnyRcode(q) | Expect::Resolve(q) => {
            let want_rcode = match &expect {
                Expect::NotImp(_) => Some(4u8),
                Expect::Refused(_) => Some(5),
                _ => None,
            };
            if let Some(w) = want_rcode {
                if rcode != w {
                    vs.push(Violation::new("c09.wrong_rcode").fact("want", w).detail(detail("wrong RCODE")));
                }
            }
            if opcode != u8::from(q.header.opcode) || rd != q.header.recursion_desired {
                vs.push(Violation::new("c09.header_not_echoed").detail(detail("opcode or RD not echoed")));
            }
            if !matches!(expect, Expect::NotImp(_)) && ra != offered {
                vs.push(Violation::new("c09.wrong_ra").detail(detail("RA does not say whether recursion is offered")));
            }
            // decode (a cut UDP reply may not decode beyond the header)
            let decoded = Message::from_octets(reply);
            if m.proto == "tcp" && tc {
                vs.push(Violation::new("c09.tc_on_tcp").detail(detail("TC set on a TCP reply")));
            }
            if let Ok(d) = &decoded {
                if d.questions != q.questions && !(tc && m.proto == "udp") {
                    vs.push(Violation::new("c09.question_not_echoed").detail(detail("question section not echoed")));
                }
                if let Expect::Resolve(_) = &expect {
                    if let Some(bad) = answer_owners_ok(&q.questions[0].name, &d.answers) {
                        let is_ns = bad.contains(" NS ");
                        vs.push(
                            Violation::new("c09.answer_owner_off_chain")
                                .fact("record_is_ns", is_ns)
                                .fact("aa", aa)
                                .detail(json!({"record": bad, "msg": detail("answer section holds a record for another name")})),
                        );
                    }
                }
            } else if !(tc && m.proto == "udp") {
                vs.push(Violation::new("c09.reply_undecodable").detail(detail("reply does not decode")));
            }
            if let (Expect::Resolve(_), true) = (&expect, differential) {
                // the differential part: sections, AA and RCODE are the resolver's
                let says = resolver_says(zones, &q.questions[0]);
                let (an, au, want_aa, want_rc) = expected_sections(&says);
                let mut full = q.make_response();
                full.header.recursion_available = offered;
                full.header.is_authoritative = want_aa;
                full.header.rcode = want_rc;
                full.answers = an.clone();
                full.authority = au.clone();
                let full_len = full.to_octets().map(|b| b.len()).unwrap_or(0);
                let near_limit = (500..=524).contains(&full_len);
                if m.proto == "udp" {
                    let want_tc = full_len > 512;
                    if want_tc {
                        bump(stats, "probe.udp_reply_cut_at_512");
                    }
                    if tc != want_tc && !near_limit {
                        vs.push(
                            Violation::new("c09.tc_wrong")
                                .fact("want_tc", want_tc)
                                .detail(json!({"full_len": full_len, "reply_len": reply.len(), "msg": detail("TC bit does not say whether the reply was cut")})),
                        );
                    }
                    if tc && reply.len() != 512 {
                        vs.push(Violation::new("c09.tc_but_not_512").detail(detail("TC set but the reply is not the first 512 bytes")));
                    }
                }
                if u8::from(want_rc) != rcode || want_aa != aa {
                    vs.push(
                        Violation::new("c09.rcode_or_aa_differs_from_resolver")
                            .detail(json!({"want_rcode": u8::from(want_rc), "want_aa": want_aa, "resolver": format!("{says:?}").chars().take(400).collect::<String>(), "msg": detail("RCODE/AA are not the resolver's")})),
                    );
                }
                if !tc {
                    if let Ok(d) = &decoded {
                        if !multiset_eq(&d.answers, &an) || !multiset_eq(&d.authority, &au) {
                            vs.push(
                                Violation::new("c09.sections_differ_from_resolver")
                                    .detail(json!({
                                        "want_answers": an.iter().map(show_rr).collect::<Vec<_>>(),
                                        "got_answers": d.answers.iter().map(show_rr).collect::<Vec<_>>(),
                                        "want_authority": au.iter().map(show_rr).collect::<Vec<_>>(),
                                        "got_authority": d.authority.iter().map(show_rr).collect::<Vec<_>>(),
                                        "msg": detail("answer/authority are not the resolver's"),
                                    })),
                            );
                        }
                    }
                }
            }
        }
        Expect::NoReply => {}
    }
}

fn oracle_c09(plan: &ServerPlan, obs: &ServerObs) -> RunResult {
    let mut res = RunResult {
        shape: obs.log_hash,
        log_hash: obs.log_hash,
        log_events: obs.log_events,
        sim_ms: obs.sim_ms,
        stats: obs.stats.clone(),
        taken: obs.taken.clone(),
        log_text: obs.log_text.clone(),
        ..RunResult::default()
    };
    if !obs.started {
        res.violations.push(Violation::new("harness_error").detail(json!({"message": "HARNESS: server did not start on a valid configuration"})));
        return res;
    }
    let zones = &obs.versions[0].1;
    let mut shape = 0x99u64;
    for o in &obs.messages {
        let m = &plan.messages[o.index];
        judge_message(plan, zones, m, o, &mut res.violations, &mut res.stats, plan.knobs.authoritative_only);
        shape = simseam::hash_bytes(shape, format!("{} {} {}", m.proto, m.what.split(' ').next().unwrap_or(""), o.replies.len()).as_bytes());
    }
    // survival
    let (tcp, udp, reload, prune) = obs.tasks_alive;
    if !(tcp && udp && reload && prune) {
        res.violations.push(Violation::new("c09.server_task_died").detail(json!({
            "tcp_listener": tcp, "udp_listener": udp, "reload_task": reload, "prune_task": prune
        })));
    }
    for p in &obs.probes {
        if p.replies.len() != 1 {
            res.violations.push(
                Violation::new("c09.not_serving_after_run")
                    .detail(json!({"probe": p.index, "replies": p.replies.len()})),
            );
        }
    }
    let malformed = plan.messages.iter().filter(|m| !matches!(framed_view(m).0.as_deref().map(triage_reference), Some(Expect::Resolve(_)))).count();
    res.nontrivial = malformed > 0 && malformed < plan.messages.len();
    res.shape = shape;
    res.sample = Some(json!({
        "authoritative_only": plan.knobs.authoritative_only,
        "messages": plan.messages.iter().take(8).map(|m| format!("@{}ms {} {} {}", m.at_ms, m.proto, m.what, if m.proto == "tcp" { format!("prefix={:?} cut={:?} piece={} after={}", m.prefix, m.cut_at, m.piece, m.after) } else { String::new() })).collect::<Vec<_>>(),
        "n_messages": plan.messages.len(),
    }));
    res
}

pub fn shrink_server_plan(plan: &ServerPlan) -> Vec<ServerPlan> {
    let mut out = Vec::new();
    let n = plan.messages.len();
    let mut chunk = n / 2;
    while chunk >= 1 {
        let mut i = 0;
        while i + chunk <= n {
            let mut p = plan.clone();
            p.messages.drain(i..i + chunk);
            out.push(p);
            i += chunk;
        }
        if chunk == 1 {
            break;
        }
        chunk /= 2;
    }
    for i in 0..plan.operator.len() {
        let mut p = plan.clone();
        p.operator.remove(i);
        out.push(p);
    }
    for i in 0..plan.messages.len() {
        if plan.messages[i].at_ms > 0 {
            let mut p = plan.clone();
            p.messages[i].at_ms = 0;
            out.push(p);
        }
        if plan.messages[i].piece != 0 {
            let mut p = plan.clone();
            p.messages[i].piece = 0;
            out.push(p);
        }
    }
    out
}

impl Property for C09 {
    fn id(&self) -> &'static str {
        "C09"
    }
    fn level(&self) -> &'static str {
        "exploration"
    }
    fn engine(&self) -> &'static str {
        "simworld/server"
    }
    fn budget(&self, tier: Tier) -> u64 {
        match tier {
            Tier::Quick => 15_000,
            Tier::Thorough => 300_000,
        }
    }
    fn plan(&self, seed: u64, index: u64, tier: Tier) -> Value {
        serde_json::to_value(gen_c09(seed, index, tier)).unwrap()
    }
    fn execute(&self, plan: &Value, exec: &Exec, want_log: bool) -> RunResult {
        let plan: ServerPlan = serde_json::from_value(plan.clone()).expect("HARNESS: bad server plan");
        let obs = server_engine::run(&plan, exec, want_log);
        oracle_c09(&plan, &obs)
    }
    fn shrink(&self, plan: &Value) -> Vec<Value> {
        let plan: ServerPlan = serde_json::from_value(plan.clone()).unwrap();
        shrink_server_plan(&plan)
            .into_iter()
            .map(|p| serde_json::to_value(p).unwrap())
            .collect()
    }
    fn rule(&self) -> String {
        "one server (authoritative-only over a zone directory and a hosts directory, or recursive over a small correct universe) started through hook H7; 5..40 messages from as many clients, overlapping in time: valid queries over all header flag/opcode combinations, 0/1/2/3 questions, known and unknown types and classes, random bytes of 0/1/2/3/11/12/13/40/512/513/700 bytes, truncations, bit flips, padding beyond 512 bytes, self-pointers; over TCP with the length prefix right, too large, too small, zero, bodies dribbled in 1/2/7-byte pieces, cut anywhere, half-close, close, reset; record sets above and near the 512-byte limit. Oracle: framing/triage reference plus differential against dns_resolver::resolve for authoritative-only runs; both listeners alive and probe queries answered at the end. Non-trivial = the run mixes well-formed and malformed messages; distinct = distinct sequence of (transport, message kind, replies)".into()
    }
    fn assumptions(&self) -> Vec<String> {
        vec![
            "the wire decoder defines 'parseable' (C03 is not claimed)".into(),
            "unparseable input with the QR bit set: no reply or one FORMERR are both accepted".into(),
            "zero questions: any RCODE, exactly one well-framed reply".into(),
            "a client that closed or reset before the reply may see nothing".into(),
            "replies whose full encoding is within 500..524 bytes: TC either way (HashMap-ordered name compression)".into(),
            "for recursive servers only framing, header echo, RA and answer-section owners are judged".into(),
        ]
    }
    fn components(&self) -> Value {
        json!({
            "real": ["resolved main.rs: listen_udp_task, listen_tcp_task, handle_raw_message, triage, resolve_and_build_response, reload_task, prune_cache_task", "resolved::fs::load_zone_configuration", "dns_resolver::util::net framing", "dns_resolver::resolve", "zone and hosts parsers", "tokio mpsc/RwLock/select!"],
            "stub": ["main(): CLI parsing, logging set-up, Prometheus endpoint (verif::start repeats its wiring)", "UDP/TCP sockets", "file access primitives", "SIGUSR1", "clients", "upstream servers"],
        })
    }
}
