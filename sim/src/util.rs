//! Small helpers: the plan-generation PRNG, names, record text forms.

use std::net::{Ipv4Addr, Ipv6Addr};

use bytes::Bytes;
use dns_types::protocol::types::*;
use simseam::mix64;

/// splitmix64 sequence: used only to *generate plans* from a seed.  Choices
/// made while a run executes are keyed decisions of the world instead.
#[derive(Clone)]
pub struct Rng(pub u64);

impl Rng {
    pub fn new(seed: u64) -> Self {
        Rng(mix64(seed ^ 0xA5A5_5A5A_1234_5678))
    }

    pub fn next(&mut self) -> u64 {
        self.0 = self.0.wrapping_add(0x9E37_79B9_7F4A_7C15);
        mix64(self.0)
    }

    /// Uniform in `0..n` (`n > 0`).
    pub fn below(&mut self, n: u64) -> u64 {
        self.next() % n.max(1)
    }

    pub fn range(&mut self, lo: u64, hi_incl: u64) -> u64 {
        lo + self.below(hi_incl - lo + 1)
    }

    pub fn chance(&mut self, p: f64) -> bool {
        #[allow(clippy::cast_precision_loss)]
        let u = (self.next() >> 11) as f64 / (1u64 << 53) as f64;
        u < p
    }

    pub fn pick<'a, T>(&mut self, items: &'a [T]) -> &'a T {
        &items[usize::try_from(self.below(items.len() as u64)).unwrap()]
    }

    pub fn shuffle<T>(&mut self, items: &mut [T]) {
        for i in (1..items.len()).rev() {
            let j = usize::try_from(self.below(i as u64 + 1)).unwrap();
            items.swap(i, j);
        }
    }
}

pub fn seed_for(base: u64, property: &str, index: u64) -> u64 {
    mix64(simseam::hash_bytes(base, property.as_bytes()) ^ mix64(index))
}

pub fn dn(s: &str) -> DomainName {
    DomainName::from_dotted_string(s).unwrap_or_else(|| panic!("HARNESS: bad domain name in plan: {s:?}"))
}

pub fn dn_str(d: &DomainName) -> String {
    d.to_dotted_string()
}

/// `child.` + `parent.` -> `child.parent.`
pub fn sub(label: &str, parent: &str) -> String {
    if parent == "." {
        format!("{label}.")
    } else {
        format!("{label}.{parent}")
    }
}

pub fn label_count(name: &str) -> usize {
    dn(name).labels.len()
}

pub fn is_subdomain(name: &str, of: &str) -> bool {
    dn(name).is_subdomain_of(&dn(of))
}

pub fn parent_of(name: &str) -> Option<String> {
    let d = dn(name);
    if d.is_root() {
        return None;
    }
    DomainName::from_labels(d.labels[1..].to_vec()).map(|p| p.to_dotted_string())
}

/// Text form of record data used in plans: `"A 10.0.0.1"`, `"NS ns1.a."`,
/// `"CNAME x.a."`, `"MX 10 mail.a."`, `"TXT hello"`, `"AAAA fd00::1"`,
/// `"PTR x.a."`, `"SOA m. r. 1 2 3 4 5"`.
pub fn parse_data(s: &str) -> RecordTypeWithData {
    let mut it = s.splitn(2, ' ');
    let ty = it.next().unwrap();
    let rest = it.next().unwrap_or("");
    match ty {
        "A" => RecordTypeWithData::A {
            address: rest.parse::<Ipv4Addr>().unwrap(),
        },
        "AAAA" => RecordTypeWithData::AAAA {
            address: rest.parse::<Ipv6Addr>().unwrap(),
        },
        "NS" => RecordTypeWithData::NS { nsdname: dn(rest) },
        "CNAME" => RecordTypeWithData::CNAME { cname: dn(rest) },
        "PTR" => RecordTypeWithData::PTR { ptrdname: dn(rest) },
        "TXT" => RecordTypeWithData::TXT {
            octets: Bytes::copy_from_slice(rest.as_bytes()),
        },
        "MX" => {
            let mut p = rest.splitn(2, ' ');
            RecordTypeWithData::MX {
                preference: p.next().unwrap().parse().unwrap(),
                exchange: dn(p.next().unwrap()),
            }
        }
        "SOA" => {
            let p: Vec<&str> = rest.split(' ').collect();
            RecordTypeWithData::SOA {
                mname: dn(p[0]),
                rname: dn(p[1]),
                serial: p[2].parse().unwrap(),
                refresh: p[3].parse().unwrap(),
                retry: p[4].parse().unwrap(),
                expire: p[5].parse().unwrap(),
                minimum: p[6].parse().unwrap(),
            }
        }
        _ => panic!("HARNESS: unsupported record data in plan: {s:?}"),
    }
}

pub fn show_data(d: &RecordTypeWithData) -> String {
    match d {
        RecordTypeWithData::A { address } => format!("A {address}"),
        RecordTypeWithData::AAAA { address } => format!("AAAA {address}"),
        RecordTypeWithData::NS { nsdname } => format!("NS {nsdname}"),
        RecordTypeWithData::CNAME { cname } => format!("CNAME {cname}"),
        RecordTypeWithData::PTR { ptrdname } => format!("PTR {ptrdname}"),
        RecordTypeWithData::TXT { octets } => {
            format!("TXT {}", String::from_utf8_lossy(octets))
        }
        RecordTypeWithData::MX {
            preference,
            exchange,
        } => format!("MX {preference} {exchange}"),
        RecordTypeWithData::SOA {
            mname,
            rname,
            serial,
            refresh,
            retry,
            expire,
            minimum,
        } => format!("SOA {mname} {rname} {serial} {refresh} {retry} {expire} {minimum}"),
        other => format!("{other:?}"),
    }
}

pub fn show_rr(rr: &ResourceRecord) -> String {
    format!(
        "{} {} {}",
        rr.name.to_dotted_string(),
        rr.ttl,
        show_data(&rr.rtype_with_data)
    )
}

pub fn rr(name: &str, data: &str, ttl: u32) -> ResourceRecord {
    ResourceRecord {
        name: dn(name),
        rtype_with_data: parse_data(data),
        rclass: RecordClass::IN,
        ttl,
    }
}

pub fn parse_qtype(s: &str) -> QueryType {
    match s {
        "ANY" => QueryType::Wildcard,
        "AXFR" => QueryType::AXFR,
        "MAILA" => QueryType::MAILA,
        "MAILB" => QueryType::MAILB,
        "A" => QueryType::Record(RecordType::A),
        "AAAA" => QueryType::Record(RecordType::AAAA),
        "NS" => QueryType::Record(RecordType::NS),
        "CNAME" => QueryType::Record(RecordType::CNAME),
        "SOA" => QueryType::Record(RecordType::SOA),
        "MX" => QueryType::Record(RecordType::MX),
        "TXT" => QueryType::Record(RecordType::TXT),
        "PTR" => QueryType::Record(RecordType::PTR),
        _ => panic!("HARNESS: unsupported qtype in plan: {s:?}"),
    }
}

pub fn show_qtype(q: QueryType) -> String {
    match q {
        QueryType::Wildcard => "ANY".into(),
        QueryType::AXFR => "AXFR".into(),
        QueryType::MAILA => "MAILA".into(),
        QueryType::MAILB => "MAILB".into(),
        QueryType::Record(r) => r.to_string(),
    }
}

pub fn question(name: &str, qtype: &str) -> Question {
    Question {
        name: dn(name),
        qtype: parse_qtype(qtype),
        qclass: QueryClass::Record(RecordClass::IN),
    }
}
