//! The simulated DNS universe (harness code): a tree of zones, the lookup
//! algorithm of an authoritative server over it (RFC 1034 4.3.2), and a
//! global reference resolver that says what the right answer to a question
//! is.  Kept small on purpose; cross-checked by the seeded mutants.

use std::collections::{BTreeMap, BTreeSet};
use std::net::IpAddr;

use dns_types::protocol::types::*;
use serde::{Deserialize, Serialize};

use crate::util::{dn, parse_data, Rng};

#[derive(Serialize, Deserialize, Clone, Debug, PartialEq, Eq)]
pub struct Rec {
    pub owner: String,
    #[serde(default, skip_serializing_if = "std::ops::Not::not")]
    pub wild: bool,
    pub data: String,
    pub ttl: u32,
}

impl Rec {
    pub fn new(owner: &str, data: &str, ttl: u32) -> Self {
        Rec {
            owner: owner.to_string(),
            wild: false,
            data: data.to_string(),
            ttl,
        }
    }

    pub fn rtype(&self) -> &str {
        self.data.split(' ').next().unwrap_or("")
    }

    pub fn rdata(&self) -> &str {
        self.data.split_once(' ').map_or("", |x| x.1)
    }

    pub fn to_rr(&self) -> ResourceRecord {
        self.to_rr_at(&self.owner)
    }

    pub fn to_rr_at(&self, owner: &str) -> ResourceRecord {
        ResourceRecord {
            name: dn(owner),
            rtype_with_data: parse_data(&self.data),
            rclass: RecordClass::IN,
            ttl: self.ttl,
        }
    }
}

#[derive(Serialize, Deserialize, Clone, Debug)]
pub struct UZone {
    pub apex: String,
    /// `"SOA mname rname serial refresh retry expire minimum"`
    pub soa: String,
    pub soa_ttl: u32,
    pub ns: Vec<String>,
    pub ns_ttl: u32,
    /// Authoritative data other than the apex SOA and NS sets (includes the
    /// addresses of in-zone name-server hosts).
    pub records: Vec<Rec>,
}

#[derive(Serialize, Deserialize, Clone, Debug, Default)]
pub struct Universe {
    /// `zones[0]` is the root.  Parents come before children.
    pub zones: Vec<UZone>,
}

pub fn names_equal(a: &str, b: &str) -> bool {
    a.eq_ignore_ascii_case(b)
}

/// `name` is `of` or beneath it.
pub fn under(name: &str, of: &str) -> bool {
    if of == "." {
        return true;
    }
    let n = name.to_ascii_lowercase();
    let o = of.to_ascii_lowercase();
    n == o || n.ends_with(&format!(".{o}"))
}

pub fn labels(name: &str) -> usize {
    if name == "." {
        1
    } else {
        name.matches('.').count() + 1
    }
}

pub fn parent(name: &str) -> Option<String> {
    if name == "." {
        return None;
    }
    match name.split_once('.') {
        Some((_, rest)) if rest.is_empty() => Some(".".to_string()),
        Some((_, rest)) => Some(rest.to_string()),
        None => None,
    }
}

pub fn child_name(label: &str, parent: &str) -> String {
    if parent == "." {
        format!("{label}.")
    } else {
        format!("{label}.{parent}")
    }
}

#[derive(Clone, Debug, PartialEq, Eq)]
pub enum ZLook {
    Referral(usize),
    Answer(Vec<ResourceRecord>),
    Cname(ResourceRecord, String),
    NoData,
    NxDomain,
}

fn type_matches(rec_type: &str, qtype: QueryType) -> bool {
    match qtype {
        QueryType::Wildcard => true,
        QueryType::Record(rt) => rt.to_string() == rec_type,
        _ => false,
    }
}

impl Universe {
    pub fn zone_index(&self, apex: &str) -> Option<usize> {
        self.zones.iter().position(|z| names_equal(&z.apex, apex))
    }

    /// Deepest zone whose apex encloses `name`.
    pub fn zone_owning(&self, name: &str) -> usize {
        let mut best = 0;
        let mut best_labels = 0;
        for (i, z) in self.zones.iter().enumerate() {
            if under(name, &z.apex) && labels(&z.apex) > best_labels {
                best = i;
                best_labels = labels(&z.apex);
            }
        }
        best
    }

    /// Direct children of zone `z` (zones delegated from it).
    pub fn children(&self, z: usize) -> Vec<usize> {
        let apex = &self.zones[z].apex;
        (0..self.zones.len())
            .filter(|&c| {
                c != z
                    && under(&self.zones[c].apex, apex)
                    && !names_equal(&self.zones[c].apex, apex)
                    && self.zone_owning(&parent(&self.zones[c].apex).unwrap_or_else(|| ".".into())) == z
            })
            .collect()
    }

    /// All records zone `z` holds at its apex and below, apex SOA/NS included.
    pub fn all_records(&self, z: usize) -> Vec<Rec> {
        let zone = &self.zones[z];
        let mut out = vec![Rec::new(&zone.apex, &zone.soa, zone.soa_ttl)];
        for ns in &zone.ns {
            out.push(Rec::new(&zone.apex, &format!("NS {ns}"), zone.ns_ttl));
        }
        out.extend(zone.records.iter().cloned());
        out
    }

    pub fn soa_rr(&self, z: usize) -> ResourceRecord {
        let zone = &self.zones[z];
        Rec::new(&zone.apex, &zone.soa, zone.soa_ttl).to_rr()
    }

    pub fn ns_rrs(&self, z: usize) -> Vec<ResourceRecord> {
        let zone = &self.zones[z];
        zone.ns
            .iter()
            .map(|ns| Rec::new(&zone.apex, &format!("NS {ns}"), zone.ns_ttl).to_rr())
            .collect()
    }

    /// Address records the universe holds for a host name (authoritative view).
    pub fn host_addresses(&self, host: &str) -> Vec<Rec> {
        let z = self.zone_owning(host);
        self.zones[z]
            .records
            .iter()
            .filter(|r| !r.wild && names_equal(&r.owner, host) && (r.rtype() == "A" || r.rtype() == "AAAA"))
            .cloned()
            .collect()
    }

    pub fn host_ips(&self, host: &str) -> Vec<IpAddr> {
        self.host_addresses(host)
            .iter()
            .map(|r| r.rdata().parse::<IpAddr>().unwrap())
            .collect()
    }

    /// Zones served at an address: those naming a host with that address in
    /// their NS set.
    pub fn zones_served_by(&self, ip: IpAddr) -> Vec<usize> {
        (0..self.zones.len())
            .filter(|&z| {
                self.zones[z]
                    .ns
                    .iter()
                    .any(|h| self.host_ips(h).contains(&ip))
            })
            .collect()
    }

    /// Glue the parent zone sends with a referral to child `c`: addresses of
    /// the child's name servers that lie at or beneath the child's apex, plus
    /// (when `sibling_glue`) any other address the parent zone itself holds.
    pub fn glue_for(&self, parent_z: usize, c: usize, sibling_glue: bool) -> Vec<ResourceRecord> {
        let child = &self.zones[c];
        let mut out = Vec::new();
        for host in &child.ns {
            let in_bailiwick = under(host, &child.apex);
            // the parent's own data, or a host beneath one of its delegations that
            // serves one of its delegations (registries keep glue for such hosts)
            let kids = self.children(parent_z);
            let parent_holds = self.zone_owning(host) == parent_z
                || (kids.iter().any(|&s| under(host, &self.zones[s].apex))
                    && kids.iter().any(|&s| self.zones[s].ns.iter().any(|h| names_equal(h, host))));
            if in_bailiwick || (sibling_glue && parent_holds) {
                for a in self.host_addresses(host) {
                    out.push(a.to_rr());
                }
            }
        }
        out
    }

    fn exists_in_zone(&self, z: usize, name: &str) -> bool {
        let zone = &self.zones[z];
        if names_equal(&zone.apex, name) {
            return true;
        }
        for r in &zone.records {
            // a wildcard owner `*.x` makes `x` exist
            if under(&r.owner, name) {
                return true;
            }
        }
        for c in self.children(z) {
            if under(&self.zones[c].apex, name) {
                return true;
            }
        }
        false
    }

    fn records_at(&self, z: usize, name: &str) -> Vec<Rec> {
        self.all_records(z)
            .into_iter()
            .filter(|r| !r.wild && names_equal(&r.owner, name))
            .collect()
    }

    fn wildcards_at(&self, z: usize, encloser: &str) -> Vec<Rec> {
        self.zones[z]
            .records
            .iter()
            .filter(|r| r.wild && names_equal(&r.owner, encloser))
            .cloned()
            .collect()
    }

    fn classify(recs: &[Rec], qname: &str, qtype: QueryType) -> ZLook {
        let is_cname_q = matches!(
            qtype,
            QueryType::Wildcard | QueryType::Record(RecordType::CNAME)
        );
        if !is_cname_q {
            if let Some(c) = recs.iter().find(|r| r.rtype() == "CNAME") {
                return ZLook::Cname(c.to_rr_at(qname), c.rdata().to_string());
            }
        }
        let rrs: Vec<ResourceRecord> = recs
            .iter()
            .filter(|r| type_matches(r.rtype(), qtype))
            .map(|r| r.to_rr_at(qname))
            .collect();
        if rrs.is_empty() {
            ZLook::NoData
        } else {
            ZLook::Answer(rrs)
        }
    }

    /// What an authoritative server for zone `z` says about `qname`.
    pub fn zone_lookup(&self, z: usize, qname: &str, qtype: QueryType) -> ZLook {
        for c in self.children(z) {
            if under(qname, &self.zones[c].apex) {
                return ZLook::Referral(c);
            }
        }
        let here = self.records_at(z, qname);
        if !here.is_empty() {
            return Self::classify(&here, qname, qtype);
        }
        if self.exists_in_zone(z, qname) {
            return ZLook::NoData;
        }
        // closest existing encloser, then its wildcard
        let mut enc = parent(qname);
        while let Some(e) = enc {
            if self.exists_in_zone(z, &e) {
                let w = self.wildcards_at(z, &e);
                if w.is_empty() {
                    return ZLook::NxDomain;
                }
                return Self::classify(&w, qname, qtype);
            }
            if names_equal(&e, &self.zones[z].apex) {
                break;
            }
            enc = parent(&e);
        }
        ZLook::NxDomain
    }

    /// The right answer to a question, from the global view.
    pub fn expected(&self, qname: &str, qtype: QueryType) -> Expected {
        let mut chain = Vec::new();
        let mut name = qname.to_string();
        let mut seen: BTreeSet<String> = BTreeSet::new();
        loop {
            if !seen.insert(name.to_ascii_lowercase()) || chain.len() > 64 {
                return Expected {
                    chain,
                    finals: Vec::new(),
                    neg_soa: None,
                    alias_loop: true,
                    final_name: name,
                };
            }
            let z = self.zone_owning(&name);
            match self.zone_lookup(z, &name, qtype) {
                ZLook::Referral(_) => unreachable!("deepest zone cannot refer"),
                ZLook::Cname(rr, target) => {
                    chain.push(rr);
                    name = target;
                }
                ZLook::Answer(rrs) => {
                    return Expected {
                        chain,
                        finals: rrs,
                        neg_soa: None,
                        alias_loop: false,
                        final_name: name,
                    }
                }
                ZLook::NoData | ZLook::NxDomain => {
                    return Expected {
                        chain,
                        finals: Vec::new(),
                        neg_soa: Some(self.soa_rr(z)),
                        alias_loop: false,
                        final_name: name,
                    }
                }
            }
        }
    }

    /// Every owner name the universe mentions (for cache sweeps).
    pub fn all_names(&self) -> BTreeSet<String> {
        let mut out = BTreeSet::new();
        for (i, z) in self.zones.iter().enumerate() {
            out.insert(z.apex.clone());
            for r in self.all_records(i) {
                out.insert(r.owner.clone());
                for tok in r.data.split(' ') {
                    if tok.ends_with('.') && tok.len() > 1 && !tok.contains(':') {
                        out.insert(tok.to_string());
                    }
                }
            }
            for ns in &z.ns {
                out.insert(ns.clone());
            }
        }
        out
    }
}

#[derive(Clone, Debug)]
pub struct Expected {
    pub chain: Vec<ResourceRecord>,
    pub finals: Vec<ResourceRecord>,
    pub neg_soa: Option<ResourceRecord>,
    pub alias_loop: bool,
    pub final_name: String,
}

// ----------------------------------------------------------------- generator

#[derive(Clone, Debug)]
pub struct GenOpts {
    pub max_depth: u64,
    pub max_zones: usize,
    /// 0 v4-only hosts, 1 v6-only, 2 dual, 3 mixed per host
    pub family_profile: u8,
    pub multi_address_hosts: bool,
    pub cross_zone_cnames: bool,
    pub wildcards: bool,
    pub out_of_zone_ns: bool,
    pub ttl_choices: Vec<u32>,
    /// Two sibling zones served only by each other's in-zone name server: the
    /// cycle is broken by the glue their common parent sends (needs the
    /// servers' `sibling_glue`).
    pub mutual_sibling_ns: bool,
    /// Per cent of the address records of out-of-zone name-server hosts that
    /// carry TTL 0 (good for the transaction in progress, never cached).
    pub zero_ttl_outside_ns_addresses: u8,
    /// The TTL those records get (0: usable once, never cached; 1: cached, but
    /// served by the cache for less than a second, so looked up again and again).
    pub short_ttl_value: u32,
    /// Per cent of the zones (below the top level) that are served, without glue,
    /// by another zone's own glued name server plus a name in that zone that does
    /// not exist: looking the ghost up fails, but brings the other server's glue.
    pub ghost_ns_percent: u8,
    /// Per cent of the second-level-and-deeper zones that are served by their
    /// PARENT's own name server (the same host is met again one referral later;
    /// needs the servers' `sibling_glue` for the parent to send its address along).
    pub parent_ns_serves_child_percent: u8,
}

impl Default for GenOpts {
    fn default() -> Self {
        GenOpts {
            max_depth: 3,
            max_zones: 8,
            family_profile: 0,
            multi_address_hosts: false,
            cross_zone_cnames: true,
            wildcards: true,
            out_of_zone_ns: true,
            ttl_choices: vec![300],
            mutual_sibling_ns: false,
            zero_ttl_outside_ns_addresses: 0,
            short_ttl_value: 0,
            ghost_ns_percent: 0,
            parent_ns_serves_child_percent: 0,
        }
    }
}

pub struct AddrAlloc {
    next: u32,
}

impl AddrAlloc {
    pub fn new() -> Self {
        AddrAlloc { next: 1 }
    }

    pub fn v4(&mut self) -> String {
        let n = self.next;
        self.next += 1;
        format!("10.{}.{}.{}", 100 + (n >> 16) % 100, (n >> 8) & 0xff, n & 0xff)
    }

    pub fn v6(&mut self) -> String {
        let n = self.next;
        self.next += 1;
        format!("fd00::{:x}:{:x}", 0x100 + (n >> 16), n & 0xffff)
    }
}

fn host_records(r: &mut Rng, alloc: &mut AddrAlloc, host: &str, opts: &GenOpts, ttl: u32) -> Vec<Rec> {
    let fam = match opts.family_profile {
        0 => 0,
        1 => 1,
        2 => 2,
        _ => r.below(3) as u8,
    };
    let mut out = Vec::new();
    let copies = if opts.multi_address_hosts && r.chance(0.3) { 2 } else { 1 };
    if fam == 0 || fam == 2 {
        for _ in 0..copies {
            out.push(Rec::new(host, &format!("A {}", alloc.v4()), ttl));
        }
    }
    if fam == 1 || fam == 2 {
        for _ in 0..copies {
            out.push(Rec::new(host, &format!("AAAA {}", alloc.v6()), ttl));
        }
    }
    out
}

/// Generate a consistent universe: every name-server name resolvable without
/// depending on the zone it serves (in-zone servers have glue by
/// construction; out-of-zone servers live in zones created earlier), one TTL
/// per RRset, parent-side NS sets identical to the child's.
pub fn generate(r: &mut Rng, opts: &GenOpts) -> Universe {
    let mut alloc = AddrAlloc::new();
    let mut u = Universe::default();
    let ttl_of = |r: &mut Rng| *r.pick(&opts.ttl_choices);

    // zone apexes, breadth first
    let mut apexes: Vec<String> = vec![".".to_string()];
    let tlds = ["com", "net", "org"];
    let subs = ["a", "b", "c", "d"];
    let n_tld = r.range(1, 3) as usize;
    let mut frontier: Vec<(String, u64)> = Vec::new();
    for t in tlds.iter().take(n_tld) {
        let apex = child_name(t, ".");
        apexes.push(apex.clone());
        frontier.push((apex, 1));
    }
    let mut fi = 0;
    while fi < frontier.len() && apexes.len() < opts.max_zones {
        let (p, depth) = frontier[fi].clone();
        fi += 1;
        if depth >= opts.max_depth {
            continue;
        }
        let kids = r.range(0, 2) as usize + usize::from(depth == 1);
        for s in subs.iter().take(kids) {
            if apexes.len() >= opts.max_zones {
                break;
            }
            // sometimes delegate two labels down (an empty non-terminal between)
            let apex = if r.chance(0.15) {
                child_name(s, &child_name("ent", &p))
            } else {
                child_name(s, &p)
            };
            apexes.push(apex.clone());
            frontier.push((apex, depth + 1));
        }
    }

    let mut shared_hosts: Vec<(String, usize)> = Vec::new();
    for (zi, apex) in apexes.iter().enumerate() {
        let soa_min = *r.pick(&[60u32, 300, 3600]);
        let mut zone = UZone {
            apex: apex.clone(),
            soa: format!(
                "SOA {} {} {} 3600 600 86400 {}",
                child_name("mname", apex),
                child_name("hostmaster", apex),
                1 + zi,
                soa_min
            ),
            soa_ttl: ttl_of(r),
            ns: Vec::new(),
            ns_ttl: ttl_of(r),
            records: Vec::new(),
        };
        let n_ns = r.range(1, 3) as usize;
        // some zones are served only by hosts outside themselves (no glue at all)
        let all_outside = opts.out_of_zone_ns && zi > 1 && r.chance(0.25);
        for k in 0..n_ns {
            let out_of_zone = opts.out_of_zone_ns && zi > 1 && (all_outside || (k > 0 && r.chance(0.4)));
            if out_of_zone {
                // a host in an earlier zone that is not an ancestor of ours
                let candidates: Vec<usize> = (1..zi)
                    .filter(|&j| !under(apex, &u.zones[j].apex))
                    .collect();
                if !candidates.is_empty() {
                    // providers serve several zones: reuse a host another zone
                    // already names, when there is one
                    let mut reusable: Vec<String> = shared_hosts
                        .iter()
                        .filter(|(_, j)| candidates.contains(j))
                        .map(|(h, _)| h.clone())
                        .filter(|h| !zone.ns.contains(h))
                        .collect();
                    // ... or another zone's own (glued) name server: then the
                    // parent's referral carries glue for the very name asked
                    for j in &candidates {
                        for h in &u.zones[*j].ns {
                            if under(h, &u.zones[*j].apex) && !zone.ns.contains(h) && !reusable.contains(h) {
                                reusable.push(h.clone());
                            }
                        }
                    }
                    if !reusable.is_empty() && r.chance(0.5) {
                        zone.ns.push(r.pick(&reusable).clone());
                        continue;
                    }
                    let j = *r.pick(&candidates);
                    let host = child_name(&format!("xns{zi}{k}"), &u.zones[j].apex);
                    let t = ttl_of(r);
                    let recs = host_records(r, &mut alloc, &host, opts, t);
                    u.zones[j].records.extend(recs);
                    shared_hosts.push((host.clone(), j));
                    zone.ns.push(host);
                    continue;
                }
            }
            let host = if apex == "." {
                child_name(&format!("{}", (b'a' + k as u8) as char), "rootns.")
            } else {
                child_name(&format!("ns{}", k + 1), apex)
            };
            let t = ttl_of(r);
            let recs = host_records(r, &mut alloc, &host, opts, t);
            zone.records.extend(recs);
            zone.ns.push(host);
        }
        u.zones.push(zone);
    }

    // two siblings that serve each other
    if opts.mutual_sibling_ns {
        let mut pairs: Vec<(usize, usize)> = Vec::new();
        for a in 1..u.zones.len() {
            for b in (a + 1)..u.zones.len() {
                let siblings = (0..u.zones.len()).any(|p| {
                    let kids = u.children(p);
                    kids.contains(&a) && kids.contains(&b)
                });
                // neither may be needed by anybody else's delegation
                let used_elsewhere = |z: usize| {
                    u.zones.iter().enumerate().any(|(i, o)| i != z && o.ns.iter().any(|h| under(h, &u.zones[z].apex)))
                };
                if siblings && !used_elsewhere(a) && !used_elsewhere(b) {
                    pairs.push((a, b));
                }
            }
        }
        if !pairs.is_empty() {
            let (a, b) = *r.pick(&pairs);
            for (z, other) in [(a, b), (b, a)] {
                let host = child_name("ns1", &u.zones[other].apex);
                if u.host_addresses(&host).is_empty() {
                    let t = ttl_of(r);
                    let recs = host_records(r, &mut alloc, &host, opts, t);
                    u.zones[other].records.extend(recs);
                }
                u.zones[z].ns = vec![host];
            }
        }
    }
    // a zone served by its parent's own server
    if opts.parent_ns_serves_child_percent > 0 {
        for zi in 2..u.zones.len() {
            if r.below(100) >= u64::from(opts.parent_ns_serves_child_percent) {
                continue;
            }
            let Some(pz) = (1..u.zones.len()).find(|&p| u.children(p).contains(&zi)) else {
                continue;
            };
            let used_elsewhere = u
                .zones
                .iter()
                .enumerate()
                .any(|(i, o)| i != zi && o.ns.iter().any(|h| under(h, &u.zones[zi].apex)));
            // (all of them, so that whichever was asked about the parent is named again)
            let hosts: Vec<String> = u.zones[pz]
                .ns
                .iter()
                .filter(|h| under(h, &u.zones[pz].apex) && !under(h, &u.zones[zi].apex) && !u.host_addresses(h).is_empty())
                .cloned()
                .collect();
            if !used_elsewhere && !hosts.is_empty() {
                u.zones[zi].ns = hosts;
            }
        }
    }
    // a lame name-server name beside a working one, both outside the zone
    if opts.ghost_ns_percent > 0 {
        for zi in 2..u.zones.len() {
            if r.below(100) >= u64::from(opts.ghost_ns_percent) {
                continue;
            }
            // nobody may depend on this zone's own servers
            let used_elsewhere = u
                .zones
                .iter()
                .enumerate()
                .any(|(i, o)| i != zi && o.ns.iter().any(|h| under(h, &u.zones[zi].apex)));
            if used_elsewhere {
                continue;
            }
            let providers: Vec<(usize, String)> = (1..u.zones.len())
                .filter(|&j| j != zi && !under(&u.zones[zi].apex, &u.zones[j].apex) && !under(&u.zones[j].apex, &u.zones[zi].apex))
                .filter_map(|j| {
                    u.zones[j]
                        .ns
                        .iter()
                        .find(|h| under(h, &u.zones[j].apex) && !u.host_addresses(h).is_empty())
                        .map(|h| (j, h.clone()))
                })
                .collect();
            if providers.is_empty() {
                continue;
            }
            let (j, host) = r.pick(&providers).clone();
            let ghost = child_name(&format!("ghost{zi}"), &u.zones[j].apex);
            u.zones[zi].ns = vec![ghost, host];
        }
    }
    // addresses that are never cached
    if opts.zero_ttl_outside_ns_addresses > 0 {
        let outside: Vec<String> = u
            .zones
            .iter()
            .flat_map(|z| z.ns.iter().filter(|h| !under(h, &z.apex)).cloned().collect::<Vec<_>>())
            .collect();
        // per host and record type (one TTL per RRset), decided once
        let mut short: Vec<(String, String)> = Vec::new();
        let mut decided: Vec<(String, String)> = Vec::new();
        for z in &mut u.zones {
            let in_zone_ns: Vec<String> = z.ns.iter().filter(|h| under(h, &z.apex)).cloned().collect();
            for rec in &mut z.records {
                let is_addr = matches!(rec.rtype(), "A" | "AAAA");
                // (a host that is also somebody's glued, in-zone server keeps its TTL)
                if is_addr
                    && outside.iter().any(|h| names_equal(h, &rec.owner))
                    && !in_zone_ns.iter().any(|h| names_equal(h, &rec.owner))
                {
                    let key = (rec.owner.to_ascii_lowercase(), rec.rtype().to_string());
                    if !decided.contains(&key) {
                        decided.push(key.clone());
                        if r.below(100) < u64::from(opts.zero_ttl_outside_ns_addresses) {
                            short.push(key.clone());
                        }
                    }
                    if short.contains(&key) {
                        rec.ttl = opts.short_ttl_value;
                    }
                }
            }
        }
    }

    // ordinary data
    let n_zones = u.zones.len();
    for zi in 0..n_zones {
        let apex = u.zones[zi].apex.clone();
        if apex == "." {
            continue;
        }
        let child_apexes: Vec<String> = u.children(zi).iter().map(|c| u.zones[*c].apex.clone()).collect();
        let free = |name: &str| !child_apexes.iter().any(|c| under(name, c));
        let mut recs: Vec<Rec> = Vec::new();
        let hosts = ["www", "mail", "h1", "h2"];
        for h in hosts.iter().take(r.range(1, 4) as usize) {
            let name = child_name(h, &apex);
            if !free(&name) {
                continue;
            }
            let t = ttl_of(r);
            match r.below(6) {
                0 => recs.push(Rec::new(&name, &format!("TXT text-{h}-{zi}"), t)),
                1 => {
                    recs.push(Rec::new(&name, &format!("MX 10 {}", child_name("mail", &apex)), t));
                    recs.push(Rec::new(&name, &format!("A {}", alloc.v4()), ttl_of(r)));
                }
                2 => {
                    recs.push(Rec::new(&name, &format!("A {}", alloc.v4()), t));
                    recs.push(Rec::new(&name, &format!("A {}", alloc.v4()), t));
                }
                3 => {
                    recs.push(Rec::new(&name, &format!("A {}", alloc.v4()), t));
                    recs.push(Rec::new(&name, &format!("AAAA {}", alloc.v6()), ttl_of(r)));
                }
                _ => recs.push(Rec::new(&name, &format!("A {}", alloc.v4()), t)),
            }
        }
        // an empty non-terminal
        if r.chance(0.4) {
            let name = child_name("leaf", &child_name("mid", &apex));
            if free(&name) {
                recs.push(Rec::new(&name, &format!("A {}", alloc.v4()), ttl_of(r)));
            }
        }
        // a wildcard
        if opts.wildcards && r.chance(0.4) {
            let enc = if r.chance(0.5) { apex.clone() } else { child_name("w", &apex) };
            if free(&enc) {
                let t = ttl_of(r);
                recs.push(Rec {
                    owner: enc.clone(),
                    wild: true,
                    data: format!("A {}", alloc.v4()),
                    ttl: t,
                });
                if r.chance(0.5) {
                    recs.push(Rec {
                        owner: enc,
                        wild: true,
                        data: format!("TXT wild-{zi}"),
                        ttl: ttl_of(r),
                    });
                }
            }
        }
        u.zones[zi].records.extend(recs);
    }

    // aliases, in-zone and across zones
    for zi in 1..n_zones {
        let apex = u.zones[zi].apex.clone();
        let n_alias = r.range(0, 2);
        for k in 0..n_alias {
            let owner = child_name(&format!("alias{k}"), &apex);
            let target_zone = if opts.cross_zone_cnames && r.chance(0.6) {
                r.range(1, n_zones as u64 - 1) as usize
            } else {
                zi
            };
            let tz_apex = u.zones[target_zone].apex.clone();
            let target = if k > 0 && r.chance(0.4) {
                // a chain of aliases
                child_name(&format!("alias{}", k - 1), &apex)
            } else {
                match r.below(4) {
                    0 => child_name("missing", &tz_apex),
                    1 => child_name("mail", &tz_apex),
                    _ => child_name("www", &tz_apex),
                }
            };
            // sometimes the alias points at another zone's apex (whose NS set the
            // resolver will have cached) ...
            let target = if opts.cross_zone_cnames && target_zone != zi && r.chance(0.2) {
                tz_apex.clone()
            } else {
                target
            };
            let t = ttl_of(r);
            u.zones[zi].records.push(Rec::new(&owner, &format!("CNAME {target}"), t));
            // ... and sometimes a name exists BENEATH the alias owner (an alias says
            // nothing about the names below it)
            if opts.cross_zone_cnames && r.chance(0.25) {
                let below = child_name("below", &owner);
                let addr = alloc.v4();
                u.zones[zi].records.push(Rec::new(&below, &format!("A {addr}"), ttl_of(r)));
            }
        }
    }
    u
}

/// Questions worth asking about a universe: existing names x types, missing
/// names and types, empty non-terminals, wildcard matches, zone cuts, aliases.
pub fn interesting_questions(u: &Universe, r: &mut Rng, n: usize) -> Vec<(String, String)> {
    let mut pool: Vec<(String, String)> = Vec::new();
    let types = ["A", "AAAA", "MX", "TXT", "NS", "SOA", "CNAME", "ANY"];
    for (zi, z) in u.zones.iter().enumerate() {
        if z.apex == "." {
            continue;
        }
        for rec in &z.records {
            if rec.wild {
                pool.push((child_name("anything", &rec.owner), rec.rtype().to_string()));
                pool.push((child_name("x", &child_name("y", &rec.owner)), "A".to_string()));
            } else {
                pool.push((rec.owner.clone(), rec.rtype().to_string()));
                pool.push((rec.owner.clone(), (*r.pick(&types)).to_string()));
            }
        }
        pool.push((z.apex.clone(), "NS".to_string()));
        pool.push((z.apex.clone(), "SOA".to_string()));
        pool.push((z.apex.clone(), "A".to_string()));
        pool.push((child_name("nonexistent", &z.apex), "A".to_string()));
        pool.push((child_name("mid", &z.apex), "A".to_string()));
        pool.push((child_name("ent", &z.apex), "TXT".to_string()));
        let _ = zi;
    }
    let mut out = Vec::new();
    for _ in 0..n {
        out.push(r.pick(&pool).clone());
    }
    out
}

/// The root hints as a local non-authoritative root zone, like
/// `config/zones/root.hints`.
pub fn root_hints(u: &Universe) -> Vec<Rec> {
    let mut out = Vec::new();
    for ns in &u.zones[0].ns {
        out.push(Rec::new(".", &format!("NS {ns}"), 3_600_000));
        for a in u.host_addresses(ns) {
            out.push(Rec::new(ns, &a.data, 3_600_000));
        }
    }
    out
}

pub fn summarize(u: &Universe) -> BTreeMap<String, usize> {
    let mut m = BTreeMap::new();
    m.insert("zones".to_string(), u.zones.len());
    m.insert(
        "records".to_string(),
        (0..u.zones.len()).map(|z| u.all_records(z).len()).sum(),
    );
    m
}
