//! C01 - local zone and hosts data always win over cache and upstream.
//! Runs on the simworld/resolve engine with local zones placed inside the
//! upstream universe's namespace, conflicting cache contents and a (possibly
//! byzantine) upstream, in authoritative-only, recursive and forwarding mode.

use std::collections::BTreeMap;

use dns_resolver::util::types::ResolvedRecord;
use dns_types::protocol::types::*;
use serde_json::{json, Value};

use crate::props_resolve::{
    base_result, exchange_summary, plan_sample, qfacts, random_benign_knobs, rr_key,
    shrink_resolve_plan, stall_is_inconclusive,
};
use crate::resolve_engine::{self, LocalZone, Observations, QuestionPlan, ResolvePlan};
use crate::runner::{Exec, Property, RunResult, Tier, Violation};
use crate::universe::{self, child_name, names_equal, under, GenOpts, Rec};
use crate::util::{parse_data, show_qtype, show_rr, Rng};

pub struct C01;

const SOA_MIN: u32 = 120;

fn soa_for(apex: &str) -> String {
    format!(
        "SOA {} {} 7 3600 600 86400 {SOA_MIN}",
        child_name("ns", apex),
        child_name("admin", apex)
    )
}

fn gen_c01(seed: u64, _index: u64, tier: Tier) -> ResolvePlan {
    let mut r = Rng::new(seed);
    let mut knobs = random_benign_knobs(&mut r);
    let mode = *r.pick(&["recursive", "recursive", "forwarding", "authoritative"]);
    if mode == "forwarding" {
        knobs.mode = "forwarding".into();
    }
    let opts = GenOpts {
        max_depth: match tier {
            Tier::Quick => r.range(1, 2),
            Tier::Thorough => r.range(1, 3),
        },
        max_zones: r.range(3, 6) as usize,
        ttl_choices: r.pick(&[&[300u32][..], &[5, 300]]).to_vec(),
        ..GenOpts::default()
    };
    let u = universe::generate(&mut r, &opts);
    let up_apexes: Vec<String> = u.zones.iter().skip(1).map(|z| z.apex.clone()).collect();

    // ---- authoritative local zones, inside the universe's namespace
    let mut local: Vec<LocalZone> = Vec::new();
    let n_auth = r.range(1, 3) as usize;
    let mut auth_apexes: Vec<String> = Vec::new();
    for k in 0..n_auth {
        let apex = match r.below(5) {
            0 => (*r.pick(&up_apexes)).clone(),
            1 => child_name("lan", r.pick(&up_apexes)),
            2 if !auth_apexes.is_empty() => child_name("sub", r.pick(&auth_apexes)),
            3 => child_name("www", r.pick(&up_apexes)),
            _ => format!("home{k}.test."),
        };
        if auth_apexes.iter().any(|a| names_equal(a, &apex)) {
            continue;
        }
        auth_apexes.push(apex);
    }
    let mut owned_names: Vec<String> = Vec::new();
    for apex in &auth_apexes {
        let mut recs: Vec<Rec> = Vec::new();
        let ttl = |r: &mut Rng| *r.pick(&[30u32, 300, 3600]);
        let host = |h: &str| child_name(h, apex);
        recs.push(Rec::new(&host("www"), "A 192.168.1.10", ttl(&mut r)));
        if r.chance(0.5) {
            recs.push(Rec::new(&host("www"), "A 192.168.1.11", ttl(&mut r)));
        }
        if r.chance(0.6) {
            recs.push(Rec::new(&host("mail"), &format!("MX 10 {}", host("www")), ttl(&mut r)));
            recs.push(Rec::new(&host("mail"), "A 192.168.1.25", ttl(&mut r)));
        }
        if r.chance(0.5) {
            recs.push(Rec::new(apex, "A 192.168.1.1", ttl(&mut r)));
        }
        if r.chance(0.3) {
            // NS at the apex: not a delegation
            recs.push(Rec::new(apex, &format!("NS {}", host("ns")), ttl(&mut r)));
            recs.push(Rec::new(&host("ns"), "A 192.168.1.53", ttl(&mut r)));
        }
        if r.chance(0.5) {
            let target = match r.below(4) {
                0 => host("www"),
                1 => child_name("www", r.pick(&up_apexes)),
                2 if auth_apexes.len() > 1 => child_name("www", r.pick(&auth_apexes)),
                _ => host("missing"),
            };
            recs.push(Rec::new(&host("alias"), &format!("CNAME {target}"), ttl(&mut r)));
        }
        if r.chance(0.4) {
            recs.push(Rec {
                owner: host("w"),
                wild: true,
                data: "A 192.168.1.99".into(),
                ttl: ttl(&mut r),
            });
        }
        if r.chance(0.4) {
            recs.push(Rec::new(&child_name("leaf", &host("mid")), "TXT deep", ttl(&mut r)));
        }
        if r.chance(0.4) {
            // a real delegation, with glue beneath it
            let d = host("deleg");
            let nsh = child_name("ns", &d);
            recs.push(Rec::new(&d, &format!("NS {nsh}"), ttl(&mut r)));
            recs.push(Rec::new(&nsh, "A 192.168.1.54", ttl(&mut r)));
        }
        for rec in &recs {
            if !rec.wild && !owned_names.contains(&rec.owner) {
                owned_names.push(rec.owner.clone());
            }
        }
        owned_names.push(host("missing"));
        local.push(LocalZone {
            apex: apex.clone(),
            soa: Some(soa_for(apex)),
            records: recs,
        });
    }

    // ---- the non-authoritative root zone: overrides, blocklist, hosts
    let mut root = LocalZone {
        apex: ".".into(),
        soa: None,
        records: Vec::new(),
    };
    let mut override_names: Vec<String> = Vec::new();
    for _ in 0..r.range(0, 3) {
        let name = child_name(*r.pick(&["www", "mail", "h1", "ads"]), r.pick(&up_apexes));
        if auth_apexes.iter().any(|a| under(&name, a)) || override_names.contains(&name) {
            continue;
        }
        match r.below(4) {
            0 => {
                root.records.push(Rec::new(&name, "A 0.0.0.0", 5));
                root.records.push(Rec::new(&name, "AAAA ::", 5));
            }
            1 => root.records.push(Rec::new(&name, "A 192.168.7.7", 5)),
            2 => root.records.push(Rec::new(&name, "TXT overridden", 60)),
            _ => {
                root.records.push(Rec::new(&name, "A 192.168.7.8", 5));
                root.records.push(Rec::new(&name, "A 192.168.7.9", 5));
            }
        }
        override_names.push(name);
    }
    if r.chance(0.3) {
        root.records.push(Rec::new("printer.lan.", "A 192.168.0.9", 5));
        override_names.push("printer.lan.".into());
    }
    local.push(root);
    // occasionally a non-root non-authoritative zone (possible through the API)
    if r.chance(0.15) {
        let apex = child_name("ovr", r.pick(&up_apexes));
        if !auth_apexes.iter().any(|a| names_equal(a, &apex)) {
            let n = child_name("www", &apex);
            local.push(LocalZone {
                apex,
                soa: None,
                records: vec![Rec::new(&n, "A 192.168.8.8", 60)],
            });
            override_names.push(n);
        }
    }

    // ---- conflicting cache contents
    let mut preload: Vec<Rec> = Vec::new();
    let all_interesting: Vec<String> = owned_names.iter().chain(override_names.iter()).cloned().collect();
    for _ in 0..r.range(0, 5) {
        if all_interesting.is_empty() {
            break;
        }
        let name = r.pick(&all_interesting).clone();
        let rec = match r.below(6) {
            0 => Rec::new(&name, "A 198.51.100.1", 300),
            1 => Rec::new(&name, "AAAA 2001:db8:bad::1", 300),
            2 => Rec::new(&name, "CNAME cached-target.evil.invalid.", 300),
            3 => Rec::new(&name, "TXT from-cache", 300),
            4 => Rec::new(&name, "MX 1 mx.evil.invalid.", 300),
            _ => Rec::new(&name, "NS ns.evil.invalid.", 300),
        };
        preload.push(rec);
    }

    // a cached alias that leads from a name nobody local owns INTO local data, with
    // a cached record of the target's name and the asked type beside it: the local
    // data must win at the alias target too
    let mut cached_alias_questions: Vec<(String, String)> = Vec::new();
    if !all_interesting.is_empty() && r.chance(0.4) {
        for k in 0..r.range(1, 2) {
            let target = r.pick(&all_interesting).clone();
            let owner = child_name(&format!("cachedalias{k}"), r.pick(&up_apexes));
            let (ty, data) = *r.pick(&[("A", "A 198.51.100.7"), ("TXT", "TXT from-cache-beside-alias"), ("AAAA", "AAAA 2001:db8:bad::7")]);
            preload.push(Rec::new(&owner, &format!("CNAME {target}"), 300));
            preload.push(Rec::new(&target, data, 300));
            cached_alias_questions.push((owner, ty.to_string()));
        }
    }

    // ---- optionally a byzantine upstream
    knobs.local_targets = owned_names.clone();
    if r.chance(0.4) {
        let kinds = ["alias_into_local", "alias_through_local", "ans_unrelated_owner", "ans_offpath_cname", "add_glue_unnamed", "auth_ns_nonancestor", "ans_wrong_type"];
        let n = r.range(1, kinds.len() as u64) as usize;
        knobs.upstream_fault_kinds = kinds.iter().take(n).map(|s| (*s).to_string()).collect();
        knobs.faults.insert("upstream.fault".into(), *r.pick(&[0.2, 0.5, 1.0]));
    }

    // ---- questions
    let types = ["A", "A", "AAAA", "MX", "TXT", "NS", "SOA", "CNAME", "ANY"];
    let mut pool: Vec<String> = Vec::new();
    for apex in &auth_apexes {
        for h in ["www", "mail", "alias", "missing", "mid", "x.w", "y.x.w", "deleg", "below.deleg", "ns.deleg", "ns"] {
            pool.push(child_name(h, apex));
        }
        pool.push(apex.clone());
        pool.push(child_name("leaf", &child_name("mid", apex)));
    }
    pool.extend(override_names.iter().cloned());
    for a in &up_apexes {
        pool.push(child_name("www", a));
        pool.push(child_name("nonexistent", a));
    }
    let nq = r.range(2, 6) as usize;
    let mut questions: Vec<QuestionPlan> = (0..nq)
        .map(|_| QuestionPlan {
            gap_ms: *r.pick(&[0u64, 0, 10, 1000, 6000]),
            name: r.pick(&pool).clone(),
            qtype: (*r.pick(&types)).into(),
            recursive: mode != "authoritative" && r.chance(0.85),
            prune_before: false,
        })
        .collect();
    for (name, ty) in cached_alias_questions {
        let at = r.below(questions.len() as u64 + 1) as usize;
        questions.insert(
            at,
            QuestionPlan {
                gap_ms: *r.pick(&[0u64, 0, 10, 1000]),
                name,
                qtype: ty,
                recursive: mode != "authoritative" && r.chance(0.85),
                prune_before: false,
            },
        );
    }
    // now and then the process is held up between two clock reads (fault `clock.stall`;
    // own random stream, the rest of the plan stays what it was)
    if Rng::new(seed ^ 0xc10c_57a1_0000).chance(0.25) {
        knobs.faults.insert("clock.stall".into(), 0.02);
    }
    ResolvePlan {
        knobs,
        hints_auto: true,
        local,
        universe: u,
        cache_preload: preload,
        questions,
    }
}

/// Flat reference model of the local configuration.
struct LocalModel {
    zones: Vec<LocalZone>,
}

impl LocalModel {
    fn zone_of(&self, name: &str) -> Option<&LocalZone> {
        self.zones
            .iter()
            .filter(|z| under(name, &z.apex))
            .max_by_key(|z| universe::labels(&z.apex))
    }

    /// At or beneath a delegation point of `z` other than its apex.
    fn delegated(z: &LocalZone, name: &str) -> bool {
        z.records.iter().any(|r| {
            !r.wild && r.rtype() == "NS" && !names_equal(&r.owner, &z.apex) && under(name, &r.owner)
        })
    }

    /// The authoritative zone that owns `name`, if one does.
    fn owner_of(&self, name: &str) -> Option<&LocalZone> {
        let z = self.zone_of(name)?;
        if z.soa.is_some() && !Self::delegated(z, name) {
            Some(z)
        } else {
            None
        }
    }

    fn actual_ttl(z: &LocalZone, ttl: u32) -> u32 {
        if z.soa.is_some() {
            ttl.max(SOA_MIN)
        } else {
            ttl
        }
    }

    /// Is `rr` a record `z` holds for its owner (directly, or synthesised from
    /// a wildcard above it)?
    fn zone_holds(z: &LocalZone, rr: &ResourceRecord) -> bool {
        let name = rr.name.to_dotted_string();
        if let (Some(soa), RecordTypeWithData::SOA { .. }) = (&z.soa, &rr.rtype_with_data) {
            if names_equal(&name, &z.apex) && parse_data(soa) == rr.rtype_with_data {
                return true;
            }
        }
        z.records.iter().any(|r| {
            parse_data(&r.data) == rr.rtype_with_data
                && Self::actual_ttl(z, r.ttl) == rr.ttl
                && if r.wild {
                    under(&name, &r.owner) && !names_equal(&name, &r.owner)
                } else {
                    names_equal(&r.owner, &name)
                }
        })
    }

    fn direct_records<'a>(z: &'a LocalZone, name: &str) -> Vec<&'a Rec> {
        z.records
            .iter()
            .filter(|r| !r.wild && names_equal(&r.owner, name))
            .collect()
    }

    /// Nothing at or beneath the name, and no wildcard above it.
    fn absent(z: &LocalZone, name: &str) -> bool {
        !names_equal(name, &z.apex)
            && !z.records.iter().any(|r| under(&r.owner, name))
            && !z.records.iter().any(|r| r.wild && under(name, &r.owner))
    }

    /// Follow aliases from `name` while everything stays inside authoritative
    /// local zones.  Returns the names visited and whether the chain stayed.
    fn local_chain(&self, name: &str, qtype: QueryType) -> (Vec<String>, bool) {
        let mut visited = vec![name.to_string()];
        let mut cur = name.to_string();
        if matches!(
            qtype,
            QueryType::Wildcard | QueryType::Record(RecordType::CNAME)
        ) {
            return (visited, self.owner_of(&cur).is_some());
        }
        for _ in 0..40 {
            let Some(z) = self.owner_of(&cur) else {
                return (visited, false);
            };
            let direct = Self::direct_records(z, &cur);
            let cname = direct.iter().find(|r| r.rtype() == "CNAME").map(|r| r.rdata().to_string()).or_else(|| {
                if direct.is_empty() && !z.records.iter().any(|r| under(&r.owner, &cur)) {
                    z.records
                        .iter()
                        .find(|r| r.wild && r.rtype() == "CNAME" && under(&cur, &r.owner))
                        .map(|r| r.rdata().to_string())
                } else {
                    None
                }
            });
            match cname {
                Some(t) => {
                    if visited.iter().any(|v| names_equal(v, &t)) {
                        return (visited, true);
                    }
                    visited.push(t.clone());
                    cur = t;
                }
                None => return (visited, true),
            }
        }
        (visited, true)
    }
}

fn result_records(q: &resolve_engine::QObs) -> Vec<ResourceRecord> {
    match &q.result {
        Ok(ResolvedRecord::Authoritative { rrs, .. } | ResolvedRecord::NonAuthoritative { rrs, .. }) => rrs.clone(),
        _ => Vec::new(),
    }
}

#[allow(clippy::too_many_lines)]
fn oracle_c01(plan: &ResolvePlan, obs: &Observations) -> RunResult {
    let mut res = base_result(obs);
    let model = LocalModel {
        zones: resolve_engine::effective_local(plan),
    };
    let bump = |stats: &mut BTreeMap<String, u64>, k: &str| *stats.entry(k.to_string()).or_insert(0) += 1;
    let forwarding = plan.knobs.mode == "forwarding";
    for q in &obs.questions {
        let qname = q.question.name.to_dotted_string();
        let qtype = q.question.qtype;
        let rrs = result_records(q);
        let ctxd = || json!({"q": qfacts(q), "exchanges": exchange_summary(obs, q), "recursive": q.recursive});

        // I6: a question for the alias itself is answered by the alias, never by what
        // it points to - wherever the alias and its target come from
        if qtype == QueryType::Record(RecordType::CNAME) {
            if let Some(stray) = rrs.iter().find(|rr| {
                !names_equal(&rr.name.to_dotted_string(), &qname)
                    || !matches!(rr.rtype_with_data, RecordTypeWithData::CNAME { .. })
            }) {
                res.violations.push(
                    Violation::new("c01.cname_question_followed")
                        .fact("mode", plan.knobs.mode.clone())
                        .detail(json!({"record": show_rr(stray), "run": ctxd()})),
                );
            }
        }
        // I1: records for names an authoritative zone owns come from that zone
        for rr in &rrs {
            let name = rr.name.to_dotted_string();
            if let Some(z) = model.owner_of(&name) {
                if !LocalModel::zone_holds(z, rr) {
                    let from_upstream_reply = obs.exchanges[..q.exchanges.end].iter().any(|e| {
                        e.reply.as_ref().is_some_and(|m| {
                            m.answers.iter().any(|x| x.name == rr.name && x.rtype_with_data == rr.rtype_with_data)
                        })
                    });
                    // did it arrive next to an alias pointing at its owner, in one answer section?
                    let with_alias = obs.exchanges[..q.exchanges.end].iter().any(|e| {
                        e.reply.as_ref().is_some_and(|m| {
                            m.answers.iter().any(|x| x.name == rr.name && x.rtype_with_data == rr.rtype_with_data)
                                && m.answers.iter().any(|x| matches!(&x.rtype_with_data, RecordTypeWithData::CNAME { cname } if *cname == rr.name))
                        })
                    });
                    res.violations.push(
                        Violation::new("c01.foreign_record_for_owned_name")
                            .fact("mode", plan.knobs.mode.clone())
                            .fact("alias_and_target_in_one_upstream_answer", with_alias)
                            .fact("verbatim_from_upstream_answer", from_upstream_reply)
                            .fact("owner_is_question_name", names_equal(&name, &qname))
                            .detail(json!({"record": show_rr(rr), "zone": z.apex, "run": ctxd()})),
                    );
                }
            }
        }

        // I2: no upstream contact about names an authoritative zone owns
        for e in &obs.exchanges[q.exchanges.clone()] {
            let Some(eq) = e.request.as_ref().and_then(|m| m.questions.first()) else { continue };
            let en = eq.name.to_dotted_string();
            if let Some(z) = model.owner_of(&en) {
                let apex_ns = LocalModel::direct_records(z, &z.apex).iter().any(|r| r.rtype() == "NS");
                res.violations.push(
                    Violation::new("c01.upstream_asked_about_owned_name")
                        .fact("zone_has_ns_at_apex", apex_ns)
                        .fact("mode", plan.knobs.mode.clone())
                        .detail(json!({"asked": format!("{en} {}", show_qtype(eq.qtype)), "to": e.to.to_string(), "zone": z.apex, "run": ctxd()})),
                );
                break;
            }
        }

        let zone = model.zone_of(&qname);
        if let Some(z) = model.owner_of(&qname) {
            bump(&mut res.stats, "probe.question_in_authoritative_zone");
            res.nontrivial = true;
            let direct = LocalModel::direct_records(z, &qname);
            let has_cname = direct.iter().any(|r| r.rtype() == "CNAME");
            let (chain, stays) = model.local_chain(&qname, qtype);
            // I3: authority
            if stays {
                let ok_kind = match &q.result {
                    Ok(ResolvedRecord::Authoritative { soa_rr, .. } | ResolvedRecord::AuthoritativeNameError { soa_rr }) => {
                        // SOA of an authoritative local zone owning a name on the chain
                        chain.iter().any(|n| {
                            model.owner_of(n).is_some_and(|cz| {
                                names_equal(&soa_rr.name.to_dotted_string(), &cz.apex)
                                    && cz.soa.as_ref().is_some_and(|s| parse_data(s) == soa_rr.rtype_with_data)
                            })
                        })
                    }
                    _ => false,
                };
                if !ok_kind {
                    let apex_ns = LocalModel::direct_records(z, &z.apex).iter().any(|r| r.rtype() == "NS");
                    res.violations.push(
                        Violation::new("c01.not_authoritative_for_owned_name")
                            .fact("zone_has_ns_at_apex", apex_ns)
                            .fact("result_is_error", q.result.is_err())
                            .detail(json!({"zone": z.apex, "local_chain": chain, "run": ctxd()})),
                    );
                }
            } else {
                bump(&mut res.stats, "probe.alias_leaves_authoritative_zones");
            }
            // exact answers in the two simple cases
            let typed: Vec<&&Rec> = direct
                .iter()
                .filter(|r| match qtype {
                    QueryType::Record(t) => t.to_string() == r.rtype(),
                    _ => false,
                })
                .collect();
            if !typed.is_empty() && !has_cname {
                let mut want: Vec<(String, String, u32)> = typed
                    .iter()
                    .map(|r| (qname.to_ascii_lowercase(), r.data.clone(), LocalModel::actual_ttl(z, r.ttl)))
                    .collect();
                let mut got: Vec<(String, String, u32)> = rrs
                    .iter()
                    .map(|rr| (rr.name.to_dotted_string().to_ascii_lowercase(), crate::util::show_data(&rr.rtype_with_data), rr.ttl))
                    .collect();
                want.sort();
                got.sort();
                // NS at the apex and SOA questions: compare through the parsed form
                let want_k: Vec<(String, RecordTypeWithData, u32)> = want.iter().map(|(n, d, t)| (n.clone(), parse_data(d), *t)).collect();
                let got_k: Vec<(String, RecordTypeWithData, u32)> = rrs
                    .iter()
                    .map(|rr| (rr.name.to_dotted_string().to_ascii_lowercase(), rr.rtype_with_data.clone(), rr.ttl))
                    .collect();
                let same = want_k.len() == got_k.len() && want_k.iter().all(|w| got_k.contains(w));
                if !same {
                    let apex_ns = LocalModel::direct_records(z, &z.apex).iter().any(|r| r.rtype() == "NS");
                    res.violations.push(
                        Violation::new("c01.wrong_answer_from_authoritative_zone")
                            .fact("zone_has_ns_at_apex", apex_ns)
                            .detail(json!({"zone": z.apex, "want": want, "got": got, "run": ctxd()})),
                    );
                }
            }
            if LocalModel::absent(z, &qname) {
                bump(&mut res.stats, "probe.question_for_absent_name_in_authoritative_zone");
                let ok = matches!(&q.result, Ok(ResolvedRecord::AuthoritativeNameError { soa_rr })
                    if names_equal(&soa_rr.name.to_dotted_string(), &z.apex));
                if !ok {
                    let apex_ns = LocalModel::direct_records(z, &z.apex).iter().any(|r| r.rtype() == "NS");
                    res.violations.push(
                        Violation::new("c01.absent_name_not_name_error")
                            .fact("zone_has_ns_at_apex", apex_ns)
                            .detail(json!({"zone": z.apex, "run": ctxd()})),
                    );
                }
            }
        }

        // I4: a name error only on the word of an authoritative local zone
        if let Ok(ResolvedRecord::AuthoritativeNameError { .. }) = &q.result {
            let ok = model.owner_of(&qname).is_some_and(|z| {
                LocalModel::direct_records(z, &qname).is_empty()
                    && !z.records.iter().any(|r| under(&r.owner, &qname) && !names_equal(&r.owner, &qname) || (r.wild && names_equal(&r.owner, &qname)))
            });
            if !ok {
                res.violations.push(
                    Violation::new("c01.name_error_without_authority").detail(json!({"run": ctxd()})),
                );
            }
        }

        // I5: a non-authoritative zone that holds (name, type) answers alone
        if let Some(z) = zone {
            if z.soa.is_none() && !LocalModel::delegated(z, &qname) {
                let direct = LocalModel::direct_records(z, &qname);
                let has_cname = direct.iter().any(|r| r.rtype() == "CNAME");
                if let QueryType::Record(t) = qtype {
                    let typed: Vec<&&Rec> = direct.iter().filter(|r| r.rtype() == t.to_string()).collect();
                    let applies = !typed.is_empty() && (!has_cname || t == RecordType::CNAME)
                        // the root hints themselves: NS at the root is how delegation works
                        && !(names_equal(&qname, ".") );
                    if applies {
                        bump(&mut res.stats, "probe.question_overridden_by_nonauthoritative_zone");
                        res.nontrivial = true;
                        let want: Vec<(String, RecordTypeWithData, u32)> = typed
                            .iter()
                            .map(|r| (qname.to_ascii_lowercase(), parse_data(&r.data), r.ttl))
                            .collect();
                        let got: Vec<(String, RecordTypeWithData, u32)> = rrs
                            .iter()
                            .map(|rr| (rr.name.to_dotted_string().to_ascii_lowercase(), rr.rtype_with_data.clone(), rr.ttl))
                            .collect();
                        let same = matches!(&q.result, Ok(ResolvedRecord::NonAuthoritative { .. }))
                            && want.len() == got.len()
                            && want.iter().all(|w| got.contains(w));
                        if !same {
                            res.violations.push(
                                Violation::new("c01.override_not_exact")
                                    .detail(json!({"zone": z.apex, "want": typed.iter().map(|r| r.data.clone()).collect::<Vec<_>>(), "run": ctxd()})),
                            );
                        }
                        if !q.exchanges.is_empty() {
                            res.violations.push(
                                Violation::new("c01.upstream_contacted_for_locally_answered_question")
                                    .detail(json!({"zone": z.apex, "run": ctxd()})),
                            );
                        }
                    }
                } else if qtype == QueryType::Wildcard && !direct.is_empty() && !has_cname {
                    // ANY: zone records, plus only (name, type) pairs the zone does not hold
                    for rr in &rrs {
                        if !names_equal(&rr.name.to_dotted_string(), &qname) {
                            continue;
                        }
                        let ty = rr.rtype_with_data.rtype().to_string();
                        let zone_has_type = direct.iter().any(|r| r.rtype() == ty);
                        if zone_has_type && !LocalModel::zone_holds(z, rr) {
                            res.violations.push(
                                Violation::new("c01.any_answer_mixes_in_foreign_record")
                                    .detail(json!({"record": show_rr(rr), "zone": z.apex, "run": ctxd()})),
                            );
                        }
                    }
                }
            }
        }
        let _ = forwarding;
        let _ = rr_key;
    }
    // conflicting data existed?
    if !plan.cache_preload.is_empty() {
        bump(&mut res.stats, "probe.run_with_conflicting_cache_contents");
    }
    res.sample = Some(plan_sample(plan));
    res
}

impl Property for C01 {
    fn id(&self) -> &'static str {
        "C01"
    }
    fn level(&self) -> &'static str {
        "exploration"
    }
    fn engine(&self) -> &'static str {
        "simworld/resolve"
    }
    fn budget(&self, tier: Tier) -> u64 {
        match tier {
            Tier::Quick => 60_000,
            Tier::Thorough => 1_200_000,
        }
    }
    fn plan(&self, seed: u64, index: u64, tier: Tier) -> Value {
        serde_json::to_value(gen_c01(seed, index, tier)).unwrap()
    }
    fn execute(&self, plan: &Value, exec: &Exec, want_log: bool) -> RunResult {
        let plan: ResolvePlan = serde_json::from_value(plan.clone()).expect("HARNESS: bad resolve plan");
        let obs = resolve_engine::run(&plan, exec, want_log);
        oracle_c01(&plan, &obs)
    }
    fn shrink(&self, plan: &Value) -> Vec<Value> {
        let plan: ResolvePlan = serde_json::from_value(plan.clone()).unwrap();
        shrink_resolve_plan(&plan)
            .into_iter()
            .map(|p| serde_json::to_value(p).unwrap())
            .collect()
    }
    fn triage_abnormal(&self, r: &mut RunResult) {
        stall_is_inconclusive(r);
    }
    fn rule(&self) -> String {
        "1..3 authoritative local zones placed inside the upstream universe's namespace (shadowing an upstream zone, beneath one, nested in another local zone, or unrelated) with A/MX/TXT/alias/wildcard/empty-non-terminal/delegation-with-glue/NS-at-apex records, a non-authoritative root zone with overrides, blocklist and hosts entries (sometimes a non-root non-authoritative zone), 0..5 conflicting cache entries for locally owned or overridden names, a correct or byzantine upstream (aliases into locally owned names with forged target records, unrelated owners, off-path aliases, unnamed glue), 2..6 questions of every type incl. ANY in authoritative-only, recursive and forwarding mode. Oracle: invariants I1-I5 of DESIGN 4.1 against a flat reference model of the local data and the transport log. Non-trivial = a question fell in an authoritative zone or was overridden by a non-authoritative one; distinct = distinct (exchange sequence, result classes)".into()
    }
    fn assumptions(&self) -> Vec<String> {
        vec![
            "names at or beneath a non-apex delegation point are exempt (in authoritative and non-authoritative zones alike)".into(),
            "wildcard synthesis is accepted for any name strictly beneath the wildcard's owner (closest-encloser exactness is C02's question)".into(),
            "when an owned name's alias chain leaves authoritative local zones the reply may be non-authoritative".into(),
            "an owner holding a CNAME answers other types with the alias; override exactness (I5) applies to it only for CNAME questions".into(),
        ]
    }
    fn components(&self) -> Value {
        json!({
            "real": ["dns_resolver::resolve (local, recursive, forwarding)", "dns_types zones (Zones::get, Zone::resolve)", "SharedCache", "wire codec", "query_nameserver"],
            "stub": ["sockets", "upstream servers / forwarder (harness actors, optionally byzantine)", "request IDs", "candidate order"],
        })
    }
}
