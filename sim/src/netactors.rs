//! The `Internet` actor: authoritative servers over a `Universe`, an optional
//! forwarder, and the byzantine layer that applies the fault the world
//! assigned to an exchange (DESIGN.md 3.4, 3.5).  Harness code, i.e. stubs.

use std::collections::BTreeMap;
use std::net::{IpAddr, SocketAddr};

use dns_types::protocol::types::*;
use serde::{Deserialize, Serialize};
use simseam::net::{ConnectFate, Internet, TcpOut, TcpThen, UdpOut};
use simseam::world;

use crate::universe::{child_name, labels, parent, under, Rec, Universe, ZLook};
use crate::util::{dn, rr, show_qtype};

#[derive(Serialize, Deserialize, Clone, Debug)]
pub struct ServerKnobs {
    /// Chase CNAMEs into other zones this server also serves.
    pub chase_cnames: bool,
    /// Send glue for out-of-bailiwick servers the parent zone happens to hold.
    pub sibling_glue: bool,
    /// Put the final record before the alias in answers (order is not
    /// something the protocol promises).
    pub shuffle_answers: bool,
    /// Force TC on UDP for every n-th reply (0 = never), so the TCP path runs.
    pub tc_every: u32,
    /// Glue the ROOT's referrals carry: 0 = all, 1 = only AAAA records, 2 = only A
    /// records (minimal or size-limited responses: the other family is learnt later).
    #[serde(default)]
    pub root_glue_family: u8,
}

impl Default for ServerKnobs {
    fn default() -> Self {
        ServerKnobs {
            chase_cnames: true,
            sibling_glue: false,
            shuffle_answers: false,
            tc_every: 0,
            root_glue_family: 0,
        }
    }
}

#[derive(Serialize, Deserialize, Clone, Debug)]
pub struct ForcedFault {
    /// `"q0.x2"`: third exchange of the first question.
    pub exchange: String,
    pub kind: String,
}

/// Transport-level and content faults for liveness (C08).
pub const FAULT_KINDS: &[&str] = &[
    "silence",
    "delay",
    "garbage",
    "pointer_games",
    "truncate_bytes",
    "wrong_id",
    "qr_clear",
    "wrong_opcode",
    "question_mismatch",
    "tc",
    "rcode_servfail",
    "rcode_formerr",
    "rcode_notimp",
    "rcode_refused",
    "rcode_reserved",
    "empty",
    "lame_same",
    "lame_up",
    "referral_unresolvable",
    "referral_self",
    "referral_deeper_fake",
    "referral_glueless_alias_ns",
    "referral_in_answer_section",
    "referral_to_self_with_glue",
    "cname_loop_inline",
    "cname_to_loop",
    "cname_stream",
    "ttl0",
    "oversize",
    "tcp_refuse",
    "tcp_blackhole",
    "tcp_reset",
    "tcp_early_eof",
    "tcp_bad_len_short",
    "tcp_bad_len_long",
];

/// Poison added to an otherwise correct, acceptable reply (C06).
pub const POISON_KINDS: &[&str] = &[
    "ans_unrelated_owner",
    "ans_offpath_cname",
    "ans_cname_fan",
    "ans_cname_fan_first",
    "ans_soa",
    "ans_wrong_type",
    "ans_dup",
    "auth_ns_nonancestor",
    "auth_ns_shallower",
    "auth_ns_same_depth",
    "auth_ns_foreign_owner",
    "ns_legit_target_foreign_owner",
    "neg_soa_foreign_owner",
    "ans_type_at_alias_owner",
    "auth_soa_extra",
    "add_glue_unnamed",
    "add_unrelated",
    "ans_ns_nonancestor",
    "alias_into_local",
    "alias_through_local",
    // replies that must be discarded whole, carrying tagged records
    "discard_wrong_id",
    "discard_qr_clear",
    "discard_opcode",
    "discard_question",
    "discard_tc",
    "discard_rcode",
    "discard_rcode_reserved",
    "discard_rcode_other",
];

#[derive(Clone, Debug)]
pub struct Exchange {
    pub ctx: String,
    pub label: String,
    pub proto: &'static str,
    pub from: SocketAddr,
    pub to: SocketAddr,
    pub at_ms: u64,
    pub request: Option<Message>,
    /// The reply as sent, when it is a decodable message.
    pub reply: Option<Message>,
    pub reply_len: usize,
    pub fault: String,
    pub delay_ms: u64,
    pub replied: bool,
}

impl Exchange {
    /// Would a correct client accept this reply for this request (R0)?
    pub fn acceptable(&self) -> bool {
        match (&self.request, &self.reply) {
            (Some(q), Some(r)) => {
                self.replied
                    && q.header.id == r.header.id
                    && r.header.is_response
                    && q.header.opcode == r.header.opcode
                    && !r.header.is_truncated
                    && (r.header.rcode == Rcode::NoError || r.header.rcode == Rcode::NameError)
                    && q.questions == r.questions
            }
            _ => false,
        }
    }
}

pub struct UniverseNet {
    pub universe: Universe,
    pub knobs: ServerKnobs,
    pub upstream_port: u16,
    pub forwarder: Option<SocketAddr>,
    pub fault_kinds: Vec<String>,
    pub forced: Vec<ForcedFault>,
    pub exchanges: Vec<Exchange>,
    /// Names local authoritative zones own (targets for `alias_into_local`).
    pub local_targets: Vec<String>,
    counters: BTreeMap<String, u32>,
    tag: u32,
    served: BTreeMap<IpAddr, Vec<usize>>,
    /// The server answering the exchange in hand.
    current_server: Option<IpAddr>,
}

impl UniverseNet {
    pub fn new(universe: Universe, knobs: ServerKnobs, upstream_port: u16) -> Self {
        let mut served: BTreeMap<IpAddr, Vec<usize>> = BTreeMap::new();
        for (zi, z) in universe.zones.iter().enumerate() {
            for h in &z.ns {
                for ip in universe.host_ips(h) {
                    let e = served.entry(ip).or_default();
                    if !e.contains(&zi) {
                        e.push(zi);
                    }
                }
            }
        }
        UniverseNet {
            universe,
            knobs,
            upstream_port,
            forwarder: None,
            fault_kinds: Vec::new(),
            forced: Vec::new(),
            exchanges: Vec::new(),
            local_targets: Vec::new(),
            counters: BTreeMap::new(),
            tag: 0,
            served,
            current_server: None,
        }
    }

    fn next_label(&mut self) -> (String, String) {
        let ctx = world::with(|w| w.ctx_label().to_string());
        let c = self.counters.entry(ctx.clone()).or_insert(0);
        let label = format!("{ctx}.x{c}");
        *c += 1;
        (ctx, label)
    }

    fn next_tag(&mut self) -> u32 {
        self.tag += 1;
        self.tag
    }

    /// A uniquely tagged address record (poison is always attributable).
    fn tagged_a(&mut self, owner: &str, ttl: u32) -> ResourceRecord {
        let t = self.next_tag();
        rr(owner, &format!("A 203.{}.{}.{}", (t >> 16) & 0xff, (t >> 8) & 0xff, t & 0xff), ttl)
    }

    fn tagged_txt(&mut self, owner: &str, ttl: u32) -> ResourceRecord {
        let t = self.next_tag();
        rr(owner, &format!("TXT poison-{t}"), ttl)
    }

    // -------------------------------------------------------- correct replies

    fn synthetic(&self, qname: &str, qtype: QueryType) -> Option<Vec<ResourceRecord>> {
        // alias loops and endless alias streams live under these labels
        let first = qname.split('.').next().unwrap_or("");
        let rest = parent(qname)?;
        let rest_first = rest.split('.').next().unwrap_or("");
        if rest_first == "loop" {
            if let Some(k) = first.strip_prefix('l').and_then(|s| s.parse::<u32>().ok()) {
                let target = child_name(&format!("l{}", (k + 1) % 3), &rest);
                let _ = qtype;
                return Some(vec![rr(qname, &format!("CNAME {target}"), 60)]);
            }
        }
        // name servers that are themselves aliases into the zone they serve
        // (see the fault kind referral_glueless_alias_ns)
        if let Some((k, zone_label)) = first.strip_prefix("gns").and_then(|s| {
            let (k, l) = s.split_once('x')?;
            Some((k.parse::<u32>().ok()?, l.to_string()))
        }) {
            // `gns3xa.ent.com.` is an alias for `gt3.a.ent.com.`: a name inside the
            // zone `a.ent.com.` that it is said to serve, while the alias itself is
            // learnt from the (correct) servers of the enclosing zone
            let target = child_name(&format!("gt{k}"), &child_name(&zone_label, &rest));
            return Some(vec![rr(qname, &format!("CNAME {target}"), 300)]);
        }
        if rest_first == "stream" {
            if let Some(k) = first.strip_prefix('s').and_then(|s| s.parse::<u32>().ok()) {
                let target = child_name(&format!("s{}", k + 1), &rest);
                return Some(vec![rr(qname, &format!("CNAME {target}"), 60)]);
            }
        }
        None
    }

    /// The correct reply of the server at `ip` to `query`, or `None` if no
    /// server lives there.
    pub fn correct_reply(&self, ip: IpAddr, query: &Message) -> Option<Message> {
        let served = self.served.get(&ip)?;
        let mut resp = query.make_response();
        resp.header.recursion_available = false;
        let Some(q) = query.questions.first() else {
            resp.header.rcode = Rcode::FormatError;
            return Some(resp);
        };
        let qname = q.name.to_dotted_string();
        if let Some(rrs) = self.synthetic(&qname, q.qtype) {
            resp.header.is_authoritative = true;
            resp.answers = rrs;
            return Some(resp);
        }
        let pick_zone = |name: &str| -> Option<usize> {
            served
                .iter()
                .copied()
                .filter(|z| under(name, &self.universe.zones[*z].apex))
                .max_by_key(|z| labels(&self.universe.zones[*z].apex))
        };
        let Some(mut z) = pick_zone(&qname) else {
            resp.header.rcode = Rcode::Refused;
            return Some(resp);
        };
        let mut name = qname;
        let mut hops = 0;
        loop {
            match self.universe.zone_lookup(z, &name, q.qtype) {
                ZLook::Referral(c) => {
                    if resp.answers.is_empty() {
                        resp.header.is_authoritative = false;
                        resp.authority = self.universe.ns_rrs(c);
                        resp.additional = self.universe.glue_for(z, c, self.knobs.sibling_glue);
                        if self.universe.zones[z].apex == "." && self.knobs.root_glue_family != 0 {
                            let keep_v6 = self.knobs.root_glue_family == 1;
                            let filtered: Vec<ResourceRecord> = resp
                                .additional
                                .iter()
                                .filter(|r| matches!(r.rtype_with_data, RecordTypeWithData::AAAA { .. }) == keep_v6)
                                .cloned()
                                .collect();
                            // never strip a host of its only family
                            if !filtered.is_empty() {
                                resp.additional = filtered;
                            }
                        }
                    }
                    break;
                }
                ZLook::Answer(rrs) => {
                    resp.header.is_authoritative = true;
                    resp.answers.extend(rrs);
                    break;
                }
                ZLook::Cname(rr, target) => {
                    resp.header.is_authoritative = true;
                    resp.answers.push(rr);
                    hops += 1;
                    let next = pick_zone(&target)
                        .filter(|nz| self.universe.zone_owning(&target) == *nz);
                    match next {
                        Some(nz) if self.knobs.chase_cnames && hops < 8 => {
                            z = nz;
                            name = target;
                        }
                        _ => break,
                    }
                }
                ZLook::NoData => {
                    resp.header.is_authoritative = true;
                    resp.authority = vec![self.universe.soa_rr(z)];
                    break;
                }
                ZLook::NxDomain => {
                    resp.header.is_authoritative = true;
                    resp.header.rcode = Rcode::NameError;
                    resp.authority = vec![self.universe.soa_rr(z)];
                    break;
                }
            }
        }
        if self.knobs.shuffle_answers && resp.answers.len() > 1 {
            resp.answers.reverse();
        }
        Some(resp)
    }

    /// The forwarder answers like a correct recursive resolver.
    pub fn forwarder_reply(&self, query: &Message) -> Message {
        let mut resp = query.make_response();
        resp.header.recursion_available = true;
        let Some(q) = query.questions.first() else {
            resp.header.rcode = Rcode::FormatError;
            return resp;
        };
        let qname = q.name.to_dotted_string();
        if let Some(rrs) = self.synthetic(&qname, q.qtype) {
            resp.answers = rrs;
            return resp;
        }
        let e = self.universe.expected(&qname, q.qtype);
        resp.answers.extend(e.chain);
        resp.answers.extend(e.finals);
        if let Some(soa) = e.neg_soa {
            resp.authority.push(soa);
            let z = self.universe.zone_owning(&e.final_name);
            if self.universe.zone_lookup(z, &e.final_name, q.qtype) == ZLook::NxDomain {
                resp.header.rcode = Rcode::NameError;
            }
        }
        if e.alias_loop {
            resp.header.rcode = Rcode::ServerFailure;
        }
        // a forwarder, too, may list its answer in any order
        if self.knobs.shuffle_answers && resp.answers.len() > 1 {
            resp.answers.reverse();
        }
        resp
    }

    // ------------------------------------------------------------- the faults

    fn fault_for(&mut self, label: &str) -> String {
        if let Some(f) = self.forced.iter().find(|f| f.exchange == label) {
            world::with(|w| w.bump(&format!("fired.upstream.{}", f.kind)));
            return f.kind.clone();
        }
        if self.fault_kinds.is_empty() {
            return "none".to_string();
        }
        let n = self.fault_kinds.len() as u64;
        let v = world::with(|w| w.choose("upstream.fault", label, n + 1));
        if v == 0 {
            "none".to_string()
        } else {
            let k = self.fault_kinds[usize::try_from(v - 1).unwrap()].clone();
            world::with(|w| w.bump(&format!("fired.upstream.{k}")));
            k
        }
    }

    /// Apply a content fault.  Returns `(message, raw override, delay, reply?)`.
    #[allow(clippy::too_many_lines)]
    fn apply_fault(
        &mut self,
        kind: &str,
        label: &str,
        query: &Message,
        mut resp: Message,
        current_depth: usize,
    ) -> (Message, Option<Vec<u8>>, u64, bool) {
        let h = world::with(|w| w.derived("upstream.fault_param", label));
        let qname = query
            .questions
            .first()
            .map_or_else(|| ".".to_string(), |q| q.name.to_dotted_string());
        // faults that build names from the question name: not when the name is
        // already close to the 255-octet limit
        if qname.len() > 200
            && matches!(
                kind,
                "lame_same" | "lame_up" | "referral_unresolvable" | "referral_self" | "referral_deeper_fake" | "referral_glueless_alias_ns"
                    | "cname_loop_inline" | "cname_to_loop" | "cname_stream" | "question_mismatch" | "discard_question"
            )
        {
            return (resp, None, 0, true);
        }
        let clear = |m: &mut Message| {
            m.answers.clear();
            m.authority.clear();
            m.additional.clear();
            m.header.rcode = Rcode::NoError;
        };
        match kind {
            "silence" => return (resp, None, 0, false),
            "delay" => {
                let d = [4990u64, 5010, 9000, 30000, 70000][usize::try_from(h % 5).unwrap()];
                return (resp, None, d, true);
            }
            "garbage" => {
                let len = 1 + usize::try_from(h % 600).unwrap();
                let bytes: Vec<u8> = (0..len)
                    .map(|i| (simseam::mix64(h ^ i as u64) & 0xff) as u8)
                    .collect();
                return (resp, Some(bytes), 0, true);
            }
            "pointer_games" => {
                // a reply whose question name plays with compression pointers: back to
                // a label of the same name, into its middle, forward, in a circle
                if let Ok(b) = resp.to_octets() {
                    let mut msg = b[..12].to_vec();
                    msg[4] = 0;
                    msg[5] = 1;
                    msg[6] = 0;
                    msg[7] = 0;
                    msg[8] = 0;
                    msg[9] = 0;
                    msg[10] = 0;
                    msg[11] = 0;
                    let name: Vec<u8> = match h % 6 {
                        0 => vec![0xC0, 12],
                        1 => vec![1, b'a', 0xC0, 12],
                        2 => vec![3, b'w', b'w', b'w', 1, b'a', 0xC0, 16],
                        3 => vec![1, b'a', 0xC0, 40],
                        4 => vec![0xC0, 14, 0xC0, 12],
                        _ => vec![2, b'a', b'b', 0xC0, 13],
                    };
                    msg.extend_from_slice(&name);
                    msg.extend_from_slice(&[0, 1, 0, 1]);
                    return (resp, Some(msg), 0, true);
                }
            }
            "truncate_bytes" => {
                if let Ok(b) = resp.to_octets() {
                    let cut = usize::try_from(h % (b.len() as u64).max(1)).unwrap();
                    return (resp, Some(b[..cut].to_vec()), 0, true);
                }
            }
            "wrong_id" | "discard_wrong_id" => {
                resp.header.id = resp.header.id.wrapping_add(1 + (h % 1000) as u16);
            }
            "qr_clear" | "discard_qr_clear" => resp.header.is_response = false,
            "wrong_opcode" | "discard_opcode" => resp.header.opcode = Opcode::Status,
            "question_mismatch" | "discard_question" => match h % 5 {
                // another name, another type, another class, a second question
                // after the right one, no question at all
                0 => {
                    if let Some(q) = resp.questions.first_mut() {
                        q.name = dn(&child_name("x", &qname));
                    }
                }
                1 => {
                    if let Some(q) = resp.questions.first_mut() {
                        q.qtype = QueryType::Record(RecordType::HINFO);
                    }
                }
                2 => {
                    if let Some(q) = resp.questions.first_mut() {
                        q.qclass = QueryClass::Record(RecordClass::from(3));
                    }
                }
                3 => {
                    if let Some(q) = resp.questions.first().cloned() {
                        let mut extra = q;
                        extra.name = dn(&child_name("second", &qname));
                        resp.questions.push(extra);
                    }
                }
                _ => resp.questions.clear(),
            },
            "tc" | "discard_tc" => resp.header.is_truncated = true,
            "rcode_servfail" => resp.header.rcode = Rcode::ServerFailure,
            "rcode_formerr" => resp.header.rcode = Rcode::FormatError,
            "rcode_notimp" => resp.header.rcode = Rcode::NotImplemented,
            "rcode_refused" | "discard_rcode" => resp.header.rcode = Rcode::Refused,
            "discard_rcode_reserved" => resp.header.rcode = Rcode::from(6 + (h % 10) as u8),
            "discard_rcode_other" => resp.header.rcode = Rcode::from([1u8, 2, 4][usize::try_from(h % 3).unwrap()]),
            "rcode_reserved" => resp.header.rcode = Rcode::from(11),
            "empty" => clear(&mut resp),
            "lame_same" | "lame_up" => {
                clear(&mut resp);
                // NS owned by an ancestor with no more labels than the delegation in use
                let mut owner = qname.clone();
                let want = if kind == "lame_same" {
                    current_depth.max(1)
                } else {
                    current_depth.saturating_sub(1).max(1)
                };
                while labels(&owner) > want {
                    owner = parent(&owner).unwrap_or_else(|| ".".into());
                }
                resp.header.is_authoritative = false;
                resp.authority.push(rr(&owner, &format!("NS {}", child_name("lame", &owner)), 300));
                let a = self.tagged_a(&child_name("lame", &owner), 300);
                resp.additional.push(a);
            }
            "referral_glueless_alias_ns" => {
                // a zone served by six glue-less name servers whose names are
                // aliases into the zone itself: every address lookup leads back
                // to the same name-server set, through an alias
                clear(&mut resp);
                resp.header.is_authoritative = false;
                let mut owner = qname.clone();
                while labels(&owner) > current_depth + 1 {
                    owner = parent(&owner).unwrap_or_else(|| ".".into());
                }
                // named beside the zone, not inside it, so that the enclosing
                // zone's servers can be asked about them (and answer with the alias)
                let up = parent(&owner).unwrap_or_else(|| ".".into());
                let zone_label = owner.split('.').next().unwrap_or("").to_string();
                if !zone_label.is_empty() && !zone_label.contains('x') {
                    for k in 0..6 {
                        resp.authority.push(rr(
                            &owner,
                            &format!("NS {}", child_name(&format!("gns{k}x{zone_label}"), &up)),
                            300,
                        ));
                    }
                }
            }
            "referral_to_self_with_glue" => {
                // the server refers the next deeper domain to ITSELF, by name, with
                // all its addresses as glue: the same host is named again one step
                // later, and the family the resolver did not know arrives in between
                let me = self.current_server.and_then(|ip| {
                    self.universe
                        .zones
                        .iter()
                        .flat_map(|z| z.ns.iter())
                        .find(|h| self.universe.host_ips(h).contains(&ip))
                        .cloned()
                });
                if let Some(host) = me {
                    let mut owner = qname.clone();
                    while labels(&owner) > current_depth + 1 {
                        owner = parent(&owner).unwrap_or_else(|| ".".into());
                    }
                    if labels(&owner) > current_depth {
                        clear(&mut resp);
                        resp.header.is_authoritative = false;
                        resp.authority.push(rr(&owner, &format!("NS {host}"), 300));
                        for a in self.universe.host_addresses(&host) {
                            resp.additional.push(a.to_rr());
                        }
                    }
                }
            }
            "referral_in_answer_section" => {
                // a correct referral, but with its NS records (and, every other
                // time, its glue) in the ANSWER section, where the resolver also looks
                let is_referral = resp.answers.is_empty()
                    && resp.authority.iter().any(|r| matches!(r.rtype_with_data, RecordTypeWithData::NS { .. }));
                if is_referral {
                    let ns: Vec<ResourceRecord> = resp.authority.drain(..).collect();
                    if h % 3 == 0 {
                        // ... in both sections
                        resp.authority = ns.clone();
                    }
                    resp.answers = ns;
                    if h % 2 == 0 {
                        let glue: Vec<ResourceRecord> = resp.additional.drain(..).collect();
                        resp.answers.extend(glue);
                    }
                }
            }
            "referral_unresolvable" | "referral_self" | "referral_deeper_fake" => {
                clear(&mut resp);
                resp.header.is_authoritative = false;
                // one label deeper than the delegation in use, if the name allows
                let mut owner = qname.clone();
                while labels(&owner) > current_depth + 1 {
                    owner = parent(&owner).unwrap_or_else(|| ".".into());
                }
                match kind {
                    "referral_unresolvable" => {
                        resp.authority.push(rr(
                            &owner,
                            &format!("NS ns.unresolvable{}.invalid.", h % 7),
                            300,
                        ));
                    }
                    "referral_self" => {
                        resp.authority
                            .push(rr(&owner, &format!("NS {}", child_name("selfns", &owner)), 300));
                    }
                    _ => {
                        // glue pointing back at a real server, so the hunt goes on
                        let host = child_name("fakens", &owner);
                        resp.authority.push(rr(&owner, &format!("NS {host}"), 300));
                        let root_ips = self.universe.host_addresses(&self.universe.zones[0].ns[0]);
                        if let Some(a) = root_ips.first() {
                            resp.additional.push(Rec::new(&host, &a.data, 300).to_rr());
                        }
                    }
                }
            }
            "cname_loop_inline" => {
                clear(&mut resp);
                let other = child_name("loopb", &qname);
                let third = child_name("loopc", &qname);
                resp.answers.push(rr(&qname, &format!("CNAME {other}"), 60));
                match h % 4 {
                    // the loop passes through the question name ...
                    0 => resp.answers.push(rr(&other, &format!("CNAME {qname}"), 60)),
                    // ... or is only reached from it: a self-loop, a two-cycle, a three-link lasso
                    1 => resp.answers.push(rr(&other, &format!("CNAME {other}"), 60)),
                    2 => {
                        resp.answers.push(rr(&other, &format!("CNAME {third}"), 60));
                        resp.answers.push(rr(&third, &format!("CNAME {other}"), 60));
                    }
                    _ => {
                        let fourth = child_name("loopd", &qname);
                        resp.answers.push(rr(&third, &format!("CNAME {fourth}"), 60));
                        resp.answers.push(rr(&fourth, &format!("CNAME {third}"), 60));
                        resp.answers.push(rr(&other, &format!("CNAME {third}"), 60));
                    }
                }
            }
            "cname_to_loop" => {
                clear(&mut resp);
                let zone = parent(&qname).unwrap_or_else(|| ".".into());
                let t = child_name("l0", &child_name("loop", &zone));
                resp.answers.push(rr(&qname, &format!("CNAME {t}"), 60));
            }
            "cname_stream" => {
                clear(&mut resp);
                let zone = parent(&qname).unwrap_or_else(|| ".".into());
                let t = child_name("s0", &child_name("stream", &zone));
                resp.answers.push(rr(&qname, &format!("CNAME {t}"), 60));
            }
            "ttl0" => {
                for r in resp
                    .answers
                    .iter_mut()
                    .chain(resp.authority.iter_mut())
                    .chain(resp.additional.iter_mut())
                {
                    r.ttl = 0;
                }
            }
            "oversize" => {
                let n = 8 + h % 40;
                for i in 0..n {
                    resp.additional.push(rr(
                        &child_name(&format!("pad{i}"), "pad.invalid."),
                        &format!("TXT {}", "x".repeat(60)),
                        60,
                    ));
                }
            }
            _ => {}
        }
        if kind.starts_with("discard_") {
            // tagged records that would be gladly used if the reply were accepted
            let a = self.tagged_a(&qname, 300);
            resp.answers.push(a);
            let zone = parent(&qname).unwrap_or_else(|| ".".into());
            resp.authority
                .push(rr(&qname, &format!("NS {}", child_name("evilns", &zone)), 300));
            let g = self.tagged_a(&child_name("evilns", &zone), 300);
            resp.additional.push(g);
        }
        (resp, None, 0, true)
    }

    /// Add poison to a correct reply; the reply stays acceptable.
    fn apply_poison(&mut self, kind: &str, query: &Message, mut resp: Message, current_depth: usize) -> Message {
        let qname = query
            .questions
            .first()
            .map_or_else(|| ".".to_string(), |q| q.name.to_dotted_string());
        let qtype = query.questions.first().map(|q| q.qtype);
        if qname.len() > 200 {
            return resp;
        }
        let victim = {
            // a real name elsewhere in the universe
            let names: Vec<String> = self
                .universe
                .all_names()
                .into_iter()
                .filter(|n| !under(&qname, n) && !under(n, &qname) && n != ".")
                .collect();
            let h = world::with(|w| w.derived("upstream.poison_victim", &qname));
            if !self.local_targets.is_empty() && h % 3 == 0 {
                self.local_targets[usize::try_from((h / 3) % self.local_targets.len() as u64).unwrap()].clone()
            } else if names.is_empty() {
                "victim.invalid.".to_string()
            } else {
                names[usize::try_from(h % names.len() as u64).unwrap()].clone()
            }
        };
        let evil_ns = "ns.evil.invalid.".to_string();
        match kind {
            "ans_unrelated_owner" => {
                let a = self.tagged_a(&victim, 300);
                resp.answers.push(a);
            }
            "ans_offpath_cname" => {
                let t = self.next_tag();
                resp.answers
                    .push(rr(&victim, &format!("CNAME attacker{t}.evil.invalid."), 300));
            }
            "ans_cname_fan" => {
                let t = self.next_tag();
                let other = format!("fan{t}.evil.invalid.");
                resp.answers.push(rr(&qname, &format!("CNAME {other}"), 300));
                let a = self.tagged_a(&other, 300);
                resp.answers.push(a);
            }
            "alias_into_local" => {
                // an alias from the question name into a name a local zone owns,
                // with a forged record at that name in the same reply
                if !self.local_targets.is_empty() {
                    let h = world::with(|w| w.derived("upstream.local_target", &qname));
                    let t = self.local_targets[usize::try_from(h % self.local_targets.len() as u64).unwrap()].clone();
                    resp.answers.clear();
                    resp.authority.clear();
                    resp.header.rcode = Rcode::NoError;
                    resp.answers.push(rr(&qname, &format!("CNAME {t}"), 300));
                    let forged = if qtype == Some(QueryType::Record(RecordType::TXT)) {
                        self.tagged_txt(&t, 300)
                    } else {
                        self.tagged_a(&t, 300)
                    };
                    resp.answers.push(forged);
                }
            }
            "alias_through_local" => {
                // a bare alias chain (no final record) that passes THROUGH a name
                // local data speaks for: `q CNAME t, t CNAME x` (sometimes with a
                // link before t, sometimes with a record at x).  Everything from t
                // on is the local data's business.
                if !self.local_targets.is_empty() {
                    let h = world::with(|w| w.derived("upstream.local_target", &qname));
                    let t = self.local_targets[usize::try_from(h % self.local_targets.len() as u64).unwrap()].clone();
                    let tag = self.next_tag();
                    let x = format!("beyond{tag}.evil.invalid.");
                    resp.answers.clear();
                    resp.authority.clear();
                    resp.header.rcode = Rcode::NoError;
                    if (h / 7) % 3 == 1 {
                        let m = format!("before{tag}.evil.invalid.");
                        resp.answers.push(rr(&qname, &format!("CNAME {m}"), 300));
                        resp.answers.push(rr(&m, &format!("CNAME {t}"), 300));
                    } else {
                        resp.answers.push(rr(&qname, &format!("CNAME {t}"), 300));
                    }
                    resp.answers.push(rr(&t, &format!("CNAME {x}"), 300));
                    if (h / 7) % 3 == 2 {
                        let forged = self.tagged_a(&x, 300);
                        resp.answers.push(forged);
                    }
                }
            }
            "ans_cname_fan_first" => {
                // a decoy alias with the owner of the reply's first real alias,
                // listed before it
                if let Some(RecordTypeWithData::CNAME { .. }) = resp.answers.first().map(|r| &r.rtype_with_data) {
                    let owner = resp.answers[0].name.to_dotted_string();
                    let t = self.next_tag();
                    resp.answers.insert(0, rr(&owner, &format!("CNAME decoy{t}.evil.invalid."), 300));
                }
            }
            "ans_soa" => {
                let t = self.next_tag();
                resp.answers.push(rr(
                    &qname,
                    &format!("SOA evil.invalid. evil.invalid. {t} 1 1 1 1"),
                    300,
                ));
            }
            "ans_wrong_type" => {
                let r = if qtype == Some(QueryType::Record(RecordType::TXT)) {
                    self.tagged_a(&qname, 300)
                } else {
                    self.tagged_txt(&qname, 300)
                };
                resp.answers.push(r);
            }
            "ans_dup" => {
                if let Some(first) = resp.answers.first().cloned() {
                    resp.answers.push(first);
                }
            }
            "auth_ns_nonancestor" | "ans_ns_nonancestor" | "auth_ns_foreign_owner" => {
                let owner = if kind == "auth_ns_foreign_owner" {
                    // a sibling of the question name
                    child_name("sibling", &parent(&qname).unwrap_or_else(|| ".".into()))
                } else {
                    victim.clone()
                };
                let ns = rr(&owner, &format!("NS {evil_ns}"), 300);
                if kind == "ans_ns_nonancestor" {
                    resp.answers.push(ns);
                } else {
                    resp.authority.push(ns);
                }
                let g = self.tagged_a(&evil_ns, 300);
                resp.additional.push(g);
            }
            "ns_legit_target_foreign_owner" => {
                // a referral's own name server named once more, by an NS record whose
                // owner the server has no say over: another zone's name, a sibling,
                // or the delegation already in use or one above it
                let legit: Vec<String> = resp
                    .authority
                    .iter()
                    .chain(resp.answers.iter())
                    .filter_map(|r| match &r.rtype_with_data {
                        RecordTypeWithData::NS { nsdname } => Some(nsdname.to_dotted_string()),
                        _ => None,
                    })
                    .collect();
                if let Some(target) = legit.first() {
                    let h = world::with(|w| w.derived("upstream.poison_owner_class", &qname));
                    let owner = match h % 5 {
                        0 => victim.clone(),
                        1 => child_name("sibling", &parent(&qname).unwrap_or_else(|| ".".into())),
                        // beneath the question name: not an ancestor either
                        4 => child_name("below", &qname),
                        k => {
                            let want = if k == 2 {
                                current_depth.max(1)
                            } else {
                                current_depth.saturating_sub(1).max(1)
                            };
                            let mut o = qname.clone();
                            while labels(&o) > want {
                                o = parent(&o).unwrap_or_else(|| ".".into());
                            }
                            o
                        }
                    };
                    let ns = rr(&owner, &format!("NS {target}"), 300);
                    // only an owner the reply has no business naming
                    let own_owner = resp.authority.iter().chain(resp.answers.iter()).any(|r| {
                        matches!(r.rtype_with_data, RecordTypeWithData::NS { .. }) && r.name == ns.name
                    });
                    if !own_owner {
                        if (h / 5) % 2 == 0 {
                            resp.authority.push(ns);
                        } else {
                            resp.answers.push(ns);
                        }
                    }
                }
            }
            "auth_ns_shallower" | "auth_ns_same_depth" => {
                let mut owner = qname.clone();
                let want = if kind == "auth_ns_same_depth" {
                    current_depth.max(1)
                } else {
                    current_depth.saturating_sub(1).max(1)
                };
                while labels(&owner) > want {
                    owner = parent(&owner).unwrap_or_else(|| ".".into());
                }
                let hp = world::with(|w| w.derived("upstream.poison_position", &qname));
                if hp % 3 == 0 {
                    resp.answers.push(rr(&owner, &format!("NS {evil_ns}"), 300));
                } else {
                    resp.authority.push(rr(&owner, &format!("NS {evil_ns}"), 300));
                }
                let g = self.tagged_a(&evil_ns, 300);
                if hp % 2 == 0 {
                    resp.additional.push(g);
                } else {
                    // glue is also looked for in the answer section
                    resp.answers.push(g);
                }
            }
            "neg_soa_foreign_owner" => {
                // a negative reply whose single SOA belongs to somebody else
                let soas = resp
                    .authority
                    .iter()
                    .filter(|r| matches!(r.rtype_with_data, RecordTypeWithData::SOA { .. }))
                    .count();
                if resp.answers.is_empty() && soas == 1 {
                    let h = world::with(|w| w.derived("upstream.poison_owner_class", &qname));
                    let owner = if h % 2 == 0 {
                        victim.clone()
                    } else {
                        child_name("sibling", &parent(&qname).unwrap_or_else(|| ".".into()))
                    };
                    let t = self.next_tag();
                    resp.authority
                        .retain(|r| !matches!(r.rtype_with_data, RecordTypeWithData::SOA { .. }));
                    resp.authority.push(rr(
                        &owner,
                        &format!("SOA evil.invalid. evil.invalid. {t} 1 1 1 1"),
                        300,
                    ));
                }
            }
            "ans_type_at_alias_owner" => {
                // a record of the asked type at the owner of an alias of the reply:
                // only the end of the alias path may supply records of the asked type
                let alias_owner = resp.answers.iter().find_map(|r| match &r.rtype_with_data {
                    RecordTypeWithData::CNAME { .. } => Some(r.name.to_dotted_string()),
                    _ => None,
                });
                if let (Some(owner), Some(QueryType::Record(rt))) = (alias_owner, qtype) {
                    if rt != RecordType::CNAME {
                        let forged = if rt == RecordType::TXT {
                            self.tagged_txt(&owner, 300)
                        } else {
                            self.tagged_a(&owner, 300)
                        };
                        let h = world::with(|w| w.derived("upstream.poison_position", &qname));
                        if h % 2 == 0 {
                            resp.answers.insert(0, forged);
                        } else {
                            resp.answers.push(forged);
                        }
                    }
                }
            }
            "auth_soa_extra" => {
                let t = self.next_tag();
                resp.authority.push(rr(
                    &victim,
                    &format!("SOA evil.invalid. evil.invalid. {t} 1 1 1 1"),
                    300,
                ));
            }
            "add_glue_unnamed" => {
                let g = self.tagged_a(&victim, 300);
                resp.additional.push(g);
                let t = self.next_tag();
                resp.additional
                    .push(rr(&victim, &format!("AAAA 2001:db8::{:x}", t & 0xffff), 300));
            }
            "add_unrelated" => {
                let t = self.tagged_txt(&victim, 300);
                resp.additional.push(t);
                let c = self.next_tag();
                resp.additional
                    .push(rr(&qname, &format!("CNAME add{c}.evil.invalid."), 300));
            }
            _ => {}
        }
        resp
    }

    /// Label count of the deepest zone the server at `ip` serves that
    /// encloses the name: what a resolver asking it is already using.
    fn depth_in_use(&self, ip: IpAddr, qname: &str) -> usize {
        self.served
            .get(&ip)
            .and_then(|zs| {
                zs.iter()
                    .filter(|z| under(qname, &self.universe.zones[**z].apex))
                    .map(|z| labels(&self.universe.zones[*z].apex))
                    .max()
            })
            .unwrap_or(1)
    }

    /// Handle one request; returns raw reply bytes (unframed) and delay.
    fn handle(
        &mut self,
        proto: &'static str,
        from: SocketAddr,
        to: SocketAddr,
        data: &[u8],
    ) -> Option<(Vec<u8>, u64, String)> {
        let (ctx, label) = self.next_label();
        let at_ms = simseam::clock::elapsed_ms();
        let request = Message::from_octets(data).ok();
        let mut ex = Exchange {
            ctx,
            label: label.clone(),
            proto,
            from,
            to,
            at_ms,
            request: request.clone(),
            reply: None,
            reply_len: 0,
            fault: "none".to_string(),
            delay_ms: 0,
            replied: false,
        };
        let is_forwarder = self.forwarder == Some(to);
        if !is_forwarder && to.port() != self.upstream_port {
            world::with(|w| w.bump("probe.query_to_wrong_port"));
            self.exchanges.push(ex);
            return None;
        }
        let Some(query) = request else {
            self.exchanges.push(ex);
            return None;
        };
        // names that do not survive the dotted-text form the harness works in
        // (a label holding a dot, learnt from a corrupted reply): refuse plainly
        let odd_name = query.questions.first().is_some_and(|q| {
            DomainName::from_dotted_string(&q.name.to_dotted_string()).as_ref() != Some(&q.name)
        });
        if odd_name {
            world::with(|w| w.bump("probe.question_name_not_representable_as_text"));
            let mut resp = query.make_response();
            resp.header.rcode = Rcode::Refused;
            let bytes = resp.to_octets().map(|b| b.to_vec()).unwrap_or_default();
            ex.reply = Some(resp);
            ex.reply_len = bytes.len();
            ex.replied = true;
            self.exchanges.push(ex);
            return Some((bytes, 0, "none".to_string()));
        }
        let correct = if is_forwarder {
            Some(self.forwarder_reply(&query))
        } else {
            self.correct_reply(to.ip(), &query)
        };
        let Some(correct) = correct else {
            world::with(|w| w.bump("probe.query_to_nonexistent_server"));
            self.exchanges.push(ex);
            return None;
        };
        let fault = self.fault_for(&label);
        ex.fault = fault.clone();
        self.current_server = Some(to.ip());
        let qname = query
            .questions
            .first()
            .map_or_else(|| ".".to_string(), |q| q.name.to_dotted_string());
        let depth = self.depth_in_use(to.ip(), &qname);
        let (msg, raw, delay, reply) = if fault == "none" {
            (correct, None, 0, true)
        } else if POISON_KINDS.contains(&fault.as_str()) && !fault.starts_with("discard_") {
            (self.apply_poison(&fault, &query, correct, depth), None, 0, true)
        } else {
            self.apply_fault(&fault, &label, &query, correct, depth)
        };
        ex.delay_ms = delay;
        if !reply {
            self.exchanges.push(ex);
            return None;
        }
        let tc_forced = self.knobs.tc_every > 0
            && proto == "udp"
            && (self.exchanges.len() as u32 + 1) % self.knobs.tc_every == 0;
        let bytes = match raw {
            Some(b) => {
                ex.reply = Message::from_octets(&b).ok();
                b
            }
            None => match msg.to_octets() {
                Ok(b) => {
                    if proto == "udp" && (b.len() > 512 || tc_forced) {
                        // what a real server does: header + question, TC set
                        let mut t = msg.clone();
                        t.answers.clear();
                        t.authority.clear();
                        t.additional.clear();
                        t.header.is_truncated = true;
                        world::with(|w| w.bump("probe.upstream_tc_sent"));
                        ex.reply = Some(t.clone());
                        t.to_octets().map(|x| x.to_vec()).unwrap_or_default()
                    } else {
                        ex.reply = Some(msg);
                        b.to_vec()
                    }
                }
                Err(_) => {
                    self.exchanges.push(ex);
                    return None;
                }
            },
        };
        ex.reply_len = bytes.len();
        ex.replied = true;
        world::with(|w| {
            w.log_event(
                "upstream.reply",
                &format!(
                    "{label} {proto} {to} q={} {} fault={fault} len={}",
                    qname,
                    query.questions.first().map_or_else(String::new, |q| show_qtype(q.qtype)),
                    bytes.len()
                ),
            );
        });
        self.exchanges.push(ex);
        Some((bytes, delay, fault))
    }
}

impl Internet for UniverseNet {
    fn udp(&mut self, from: SocketAddr, to: SocketAddr, data: &[u8]) -> Vec<UdpOut> {
        match self.handle("udp", from, to, data) {
            Some((bytes, delay, _)) => vec![UdpOut {
                data: bytes,
                from: to,
                delay_ms: delay,
            }],
            None => Vec::new(),
        }
    }

    fn tcp_connect(&mut self, _from: SocketAddr, to: SocketAddr) -> ConnectFate {
        let is_forwarder = self.forwarder == Some(to);
        if !is_forwarder && (to.port() != self.upstream_port || !self.served.contains_key(&to.ip())) {
            return ConnectFate::Refuse;
        }
        // peek at the fault the *next* exchange of this context will get
        let ctx = world::with(|w| w.ctx_label().to_string());
        let n = self.counters.get(&ctx).copied().unwrap_or(0);
        let label = format!("{ctx}.x{n}");
        if let Some(f) = self.forced.iter().find(|f| f.exchange == label) {
            match f.kind.as_str() {
                "tcp_refuse" => {
                    self.counters.insert(ctx, n + 1);
                    world::with(|w| w.bump("fired.upstream.tcp_refuse"));
                    return ConnectFate::Refuse;
                }
                "tcp_blackhole" => {
                    self.counters.insert(ctx, n + 1);
                    world::with(|w| w.bump("fired.upstream.tcp_blackhole"));
                    return ConnectFate::BlackHole;
                }
                _ => {}
            }
        }
        ConnectFate::Accept
    }

    fn tcp_message(&mut self, from: SocketAddr, to: SocketAddr, body: &[u8]) -> Option<TcpOut> {
        let (bytes, delay, fault) = self.handle("tcp", from, to, body)?;
        let len = u16::try_from(bytes.len()).unwrap_or(u16::MAX);
        let mut framed = len.to_be_bytes().to_vec();
        framed.extend_from_slice(&bytes[..usize::from(len)]);
        let mut out = TcpOut {
            data: framed,
            delay_ms: delay,
            cut_at: None,
            then: TcpThen::Close,
        };
        match fault.as_str() {
            "tcp_reset" => {
                out.cut_at = Some(out.data.len() / 2);
                out.then = TcpThen::Reset;
            }
            "tcp_early_eof" => {
                // anywhere: inside the prefix, right after it, after one or two
                // body bytes, in the middle, one byte short
                let n = out.data.len();
                let h = world::with(|w| w.derived("upstream.tcp_cut", &format!("{to}")));
                let cut = [1usize, 2, 3, 4, 5, n / 2, n.saturating_sub(1)][usize::try_from(h % 7).unwrap()];
                out.cut_at = Some(cut.clamp(1, n.saturating_sub(1).max(1)));
                out.then = TcpThen::Close;
            }
            "tcp_bad_len_short" => {
                let l = len.saturating_sub(3);
                out.data[..2].copy_from_slice(&l.to_be_bytes());
            }
            "tcp_bad_len_long" => {
                let l = len.saturating_add(7);
                out.data[..2].copy_from_slice(&l.to_be_bytes());
                out.then = TcpThen::KeepOpen;
            }
            _ => {}
        }
        Some(out)
    }
}
