#!/bin/bash
# Apply every seeded change under /verif/seeded/ to /repo in turn, run the quick check of
# the property it breaks, undo it.  Every one must be reported (exit 1).
REPO="${REPO:-/repo}"
cd "$(dirname "$0")/.." || exit 2
[ -z "$(git -C "$REPO" status --short)" ] || { echo "$REPO is not clean"; exit 2; }
./check setup > /dev/null || exit 2
missed=0
for d in seeded/*/; do
  name=$(basename "$d")
  # (regress_property: the check to expect an alarm from, where later repairs of /repo have
  # masked the change's effect on the property it was written against)
  prop=$(python3 -c "import json,sys; m=json.load(open('$d/meta.json')); print(m.get('regress_property') or m['breaks_property'])" 2>/dev/null)
  [ -z "$prop" ] && prop=$(echo "$name" | cut -c1-3 | tr a-z A-Z)
  if python3 -c "import json,sys; sys.exit(0 if 'retired' in json.load(open('$d/meta.json')) else 1)" 2>/dev/null; then echo "$name: retired (see meta.json)"; continue; fi
  if ! git -C "$REPO" apply "$PWD/$d/patch.diff" 2>/dev/null; then echo "$name: patch no longer applies to /repo HEAD"; continue; fi
  VERIF_SHRINK_BUDGET=0 ./check "$prop" quick > "/tmp/regress-$name.log" 2>&1; rc=$?
  git -C "$REPO" checkout -- .
  kinds=$(grep -E "violation tally" "/tmp/regress-$name.log" | sed -E 's/.*x //' | cut -c1-80 | sort -u | head -3 | tr '\n' ';')
  echo "$name: $prop exit=$rc $kinds"
  [ $rc -eq 1 ] || missed=$((missed+1))
done
./check setup > /dev/null
echo "not reported: $missed"
