#!/bin/bash
# A private copy of /verif and of /repo's HEAD under $LAB, so that long experiments
# (seeded regression, benign changes) do not block work on /verif and /repo themselves.
#   tools/lab.sh create     copy /verif (committed or not) and check out /repo's HEAD
#   tools/lab.sh remove
# Inside the lab: REPO=$LAB/repo $LAB/verif/tools/<script>
set -u
LAB="${LAB:-/tmp/lab}"
case "${1:-}" in
create)
    [ -e $LAB ] && { echo "$LAB exists"; exit 2; }
    mkdir -p $LAB
    git -C /repo worktree add --detach $LAB/repo HEAD -q || exit 2
    rsync -a --exclude .git --exclude replay --exclude evidence /verif/ $LAB/verif/
    mkdir -p $LAB/verif/evidence $LAB/verif/replay
    cd $LAB/verif || exit 2
    sed -i "s#\"/repo/#\"$LAB/repo/#" shadow/*/Cargo.toml sim/src/main.rs
    sed -i "s#git_rev(\"/repo\")#git_rev(\"$LAB/repo\")#" sim/src/runner.rs
    ./check setup
    ;;
refresh)
    # bring the lab up to date with /verif's working tree and /repo's HEAD
    [ -d $LAB/verif ] || { echo "no lab"; exit 2; }
    git -C $LAB/repo checkout -q --detach "$(git -C /repo rev-parse HEAD)" || exit 2
    git -C $LAB/repo checkout -q -- . && git -C $LAB/repo clean -fdq
    rsync -a --delete --exclude .git --exclude replay --exclude evidence --exclude target /verif/ $LAB/verif/
    cd $LAB/verif || exit 2
    sed -i "s#\"/repo/#\"$LAB/repo/#" shadow/*/Cargo.toml sim/src/main.rs
    sed -i "s#git_rev(\"/repo\")#git_rev(\"$LAB/repo\")#" sim/src/runner.rs
    ./check setup
    ;;
remove)
    git -C /repo worktree remove --force $LAB/repo
    rm -rf $LAB
    git -C /repo worktree prune
    ;;
*) echo "usage: tools/lab.sh create|refresh|remove"; exit 2 ;;
esac
