#!/bin/bash
# A private copy of /verif and of /repo's HEAD under /tmp/lab, so that long experiments
# (seeded regression, benign changes) do not block work on /verif and /repo themselves.
#   tools/lab.sh create     copy /verif (committed or not) and check out /repo's HEAD
#   tools/lab.sh remove
# Inside the lab: REPO=/tmp/lab/repo /tmp/lab/verif/tools/<script>
set -u
case "${1:-}" in
create)
    [ -e /tmp/lab ] && { echo "/tmp/lab exists"; exit 2; }
    mkdir -p /tmp/lab
    git -C /repo worktree add --detach /tmp/lab/repo HEAD -q || exit 2
    rsync -a --exclude .git --exclude replay --exclude evidence /verif/ /tmp/lab/verif/
    mkdir -p /tmp/lab/verif/evidence /tmp/lab/verif/replay
    cd /tmp/lab/verif || exit 2
    sed -i 's#"/repo/#"/tmp/lab/repo/#' shadow/*/Cargo.toml sim/src/main.rs
    sed -i 's#git_rev("/repo")#git_rev("/tmp/lab/repo")#' sim/src/runner.rs
    ./check setup
    ;;
refresh)
    # bring the lab up to date with /verif's working tree and /repo's HEAD
    [ -d /tmp/lab/verif ] || { echo "no lab"; exit 2; }
    git -C /tmp/lab/repo checkout -q --detach "$(git -C /repo rev-parse HEAD)" || exit 2
    git -C /tmp/lab/repo checkout -q -- . && git -C /tmp/lab/repo clean -fdq
    rsync -a --delete --exclude .git --exclude replay --exclude evidence --exclude target /verif/ /tmp/lab/verif/
    cd /tmp/lab/verif || exit 2
    sed -i 's#"/repo/#"/tmp/lab/repo/#' shadow/*/Cargo.toml sim/src/main.rs
    sed -i 's#git_rev("/repo")#git_rev("/tmp/lab/repo")#' sim/src/runner.rs
    ./check setup
    ;;
remove)
    git -C /repo worktree remove --force /tmp/lab/repo
    rm -rf /tmp/lab
    git -C /repo worktree prune
    ;;
*) echo "usage: tools/lab.sh create|refresh|remove"; exit 2 ;;
esac
