#!/bin/bash
# Re-run the "demonstration WITH the change" step for seeded changes whose verify.log shows
# that step lost its test file (a bug of an earlier tools/seeded_verify.sh: `git clean`
# removed the tests directory before the demonstration was copied back).
# Uses a scratch worktree of /repo's HEAD at /tmp/rv, removed at the end.
cd "$(dirname "$0")/.." || exit 2
git -C /repo worktree add --detach /tmp/rv HEAD -q || exit 2
[ -d /tmp/wb/target ] && cp -r /tmp/wb/target /tmp/rv/target
for d in "$@"; do
  log=$d/verify.log
  line=$(grep -m1 "no test target named" "$log") || { echo "$d: nothing to redo"; continue; }
  t=$(echo "$line" | sed -E 's/.*named `([^`]+)` in `([^`]+)`.*/\1/')
  pkg=$(echo "$line" | sed -E 's/.*named `([^`]+)` in `([^`]+)`.*/\2/')
  demo=$(ls "$d" | grep -vE '^(patch.diff|meta.json|verify.log|agent-README.md|check-.*\.log)$' | head -1)
  dst=/tmp/rv/crates/$pkg/tests/$t.rs
  ( cd /tmp/rv && git checkout -q -- . && git clean -fdq crates && git apply "/verif/$d/patch.diff" ) || { echo "$d: patch does not apply at HEAD"; continue; }
  mkdir -p "$(dirname "$dst")"; cp "$d/$demo" "$dst"
  echo "== demo WITH the change, re-run (the step above had lost the test file), /repo at $(git -C /repo rev-parse --short HEAD)" >> "$log"
  ( cd /tmp/rv && DEMO_WAIT_SECS=10 timeout 900 cargo test -p "$pkg" --test "$t" --offline 2>&1 | grep -E "^test |test result|panicked|error" | head -20 ) >> "$log"
  rc=${PIPESTATUS[0]}
  res=$(tail -25 "$log" | grep -E "^test result" | tail -1)
  echo "$d: $res"
  echo "demo_with_exit_rerun: $res" >> "$log"
done
git -C /repo worktree remove --force /tmp/rv
