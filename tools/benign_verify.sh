#!/bin/bash
# Apply each property-preserving change under /verif/benign/*.diff to /repo, run the
# quick checks, undo it.  A VIOLATION or a non-zero exit on any of them is a false alarm
# of the machinery.   tools/benign_verify.sh [patch...]   (default: all)
REPO="${REPO:-/repo}"
cd "$(dirname "$0")/.." || exit 2
patches=("$@"); [ ${#patches[@]} -eq 0 ] && patches=(benign/*.diff)
[ -z "$(git -C "$REPO" status --short)" ] || { echo "$REPO is not clean"; exit 2; }
for f in "${patches[@]}"; do
  name=$(basename "$f" .diff)
  git -C "$REPO" apply "$PWD/$f" || { echo "$name: patch does not apply"; continue; }
  res=""
  for p in ${PROPS:-C01 C05 C06 C07 C08 C09 C10 C12 C15 C18 C19}; do
    ./check $p quick > "/tmp/benign-$name-$p.log" 2>&1; rc=$?
    res="$res $p=$rc"
    if [ $rc -ne 0 ]; then grep -E "VIOLATION|violation tally|harness" "/tmp/benign-$name-$p.log" | cut -c1-300 | sed "s/^/    $name $p: /"; fi
  done
  git -C "$REPO" checkout -- .
  echo "$name:$res"
done
./check setup > /dev/null
