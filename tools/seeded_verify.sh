#!/bin/bash
# Verify a seeded change and record it under /verif/seeded/<name>/.
#   tools/seeded_verify.sh <name> <property> <scratch worktree> <demo source> <demo destination (relative)> "<demo command>" [check ids...]
# 1. in the scratch worktree: with the patch the pinned suite passes and the
#    demonstration fails; without it the demonstration passes;
# 2. against /repo: apply the patch, run the quick checks, undo it.
set -u
name=$1; prop=$2; wt=$3; demo_src=$4; demo_dst=$5; demo_cmd=$6; shift 6
checks=("$@"); [ ${#checks[@]} -eq 0 ] && checks=("$prop")
out=/verif/seeded/$name
mkdir -p "$out"
cp "$wt/_out/patch.diff" "$out/patch.diff"
cp "$demo_src" "$out/$(basename "$demo_src")"
[ -f "$wt/_out/README.md" ] && cp "$wt/_out/README.md" "$out/agent-README.md"
log="$out/verify.log"; : > "$log"
cd "$wt" || exit 2
git checkout -q -- . 2>/dev/null
mkdir -p "$(dirname "$demo_dst")"
if [[ "$demo_src" == *.diff ]]; then git apply "$demo_src" >> "$log" 2>&1; else cp "$demo_src" "$demo_dst"; fi
echo "== demo WITHOUT the change" >> "$log"
( eval "$demo_cmd" ) >> "$log" 2>&1; demo_without=$?
rm -f "$demo_dst"; git checkout -q -- . 2>/dev/null; git clean -fdq crates 2>/dev/null
git apply "$out/patch.diff" || { echo "patch does not apply" >> "$log"; exit 2; }
echo "== pinned suite WITH the change (demo not present)" >> "$log"
cargo test --workspace --no-fail-fast --offline > "$out/suite.log" 2>&1; suite=$?
grep -E "^test result" "$out/suite.log" | head -3 >> "$log"
echo "== demo WITH the change" >> "$log"
mkdir -p "$(dirname "$demo_dst")"
if [[ "$demo_src" == *.diff ]]; then git apply "$demo_src" >> "$log" 2>&1; else cp "$demo_src" "$demo_dst" || exit 2; fi
( eval "$demo_cmd" ) >> "$log" 2>&1; demo_with=$?
git checkout -q -- . 2>/dev/null; rm -f "$demo_dst"; git clean -fdq crates 2>/dev/null; git apply "$out/patch.diff" 2>/dev/null
git apply -R "$out/patch.diff"; rm -f "$demo_dst"; git checkout -q -- . 2>/dev/null; git clean -fdq crates 2>/dev/null
rm -f "$out/suite.log"
echo "suite_with_change_exit=$suite demo_without_exit=$demo_without demo_with_exit=$demo_with" | tee -a "$log"
cd /verif || exit 2
[ -n "${SKIP_CHECKS:-}" ] && exit 0
results=""
git -C /repo apply "$out/patch.diff" || { echo "patch does not apply to /repo" | tee -a "$log"; exit 2; }
for c in "${checks[@]}"; do
    ./check "$c" quick > "$out/check-$c.log" 2>&1; rc=$?
    results="$results $c=$rc"
    grep -E "^VIOLATION|violation tally|KNOWN-FINDING|runs \(" "$out/check-$c.log" | cut -c1-300 | head -12 >> "$log"
done
git -C /repo checkout -- .
echo "checks_with_change:$results" | tee -a "$log"
git -C /repo status --short | head -3
