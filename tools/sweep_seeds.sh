#!/bin/bash
# Run every check under several VERIF_SEED values (used to look for alarms on the unchanged tree).
#   tools/sweep_seeds.sh <seed>...            quick tier
#   TIER=thorough tools/sweep_seeds.sh <seed>...
cd "$(dirname "$0")/.." || exit 2
tier="${TIER:-quick}"
./check setup || exit 2
for seed in "$@"; do
  for p in ${PROPS:-C01 C05 C06 C07 C08 C09 C10 C12 C15 C18 C19}; do
    VERIF_SEED=$seed ./check $p "$tier" 2>&1 | grep -E "^C[0-9]+( shuttle)?:|VIOLATION|harness|tally" | sed "s/^/seed=$seed /" | cut -c1-260
  done
done
