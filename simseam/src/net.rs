//! Simulated UDP/TCP (hooks H1, H7): the subset of `tokio::net` the code uses.
//!
//! All sockets of a world live on "the host"; any other address belongs to the
//! `Internet` actor the harness installs (upstream name servers, a forwarder).
//! Every datagram, connection and segment is delivered by a tokio task that
//! sleeps on the paused clock for the latency the world decided, so a run's
//! interleaving is a function of the world's decisions only.
//!
//! Handles are plain ids (`Send + Sync`); the state lives in the thread-local
//! world.  `recv`, `recv_from`, `accept` and reads are cancel-safe like
//! tokio's: nothing is consumed until the future completes.

use std::cell::RefCell;
use std::collections::{HashMap, VecDeque};
use std::future::poll_fn;
use std::io;
use std::net::{IpAddr, Ipv4Addr, Ipv6Addr, SocketAddr, ToSocketAddrs};
use std::pin::Pin;
use std::rc::Rc;
use std::task::{Context, Poll, Waker};
use std::time::Duration;

use tokio::io::{AsyncRead, AsyncWrite, ReadBuf};

use crate::clock;
use crate::world::{self, World};

/// The address other parties see for a socket bound to the IPv4 wildcard.
pub const HOST_V4: Ipv4Addr = Ipv4Addr::new(10, 53, 0, 1);
/// The address other parties see for a socket bound to the IPv6 wildcard.
pub const HOST_V6: Ipv6Addr = Ipv6Addr::new(0xfd53, 0, 0, 0, 0, 0, 0, 1);

pub fn is_local_ip(ip: IpAddr) -> bool {
    ip.is_loopback()
        || ip.is_unspecified()
        || ip == IpAddr::V4(HOST_V4)
        || ip == IpAddr::V6(HOST_V6)
}

// --------------------------------------------------------------------- actor

pub struct UdpOut {
    pub data: Vec<u8>,
    /// Source address of the reply (normally the address that was queried).
    pub from: SocketAddr,
    /// Extra delay on top of the network latency.
    pub delay_ms: u64,
}

#[derive(Copy, Clone, Debug, Eq, PartialEq)]
pub enum ConnectFate {
    Accept,
    Refuse,
    BlackHole,
}

#[derive(Copy, Clone, Debug, Eq, PartialEq)]
pub enum TcpThen {
    KeepOpen,
    Close,
    Reset,
}

pub struct TcpOut {
    /// Raw bytes to write back (the actor does its own framing, so it can get
    /// the length prefix wrong on purpose).
    pub data: Vec<u8>,
    pub delay_ms: u64,
    /// Deliver only this many bytes of `data` before `then` applies.
    pub cut_at: Option<usize>,
    pub then: TcpThen,
}

/// Everything that is not the host: called with the world *not* borrowed, so
/// implementations may use `world::with` for their own decisions.
pub trait Internet {
    fn udp(&mut self, from: SocketAddr, to: SocketAddr, data: &[u8]) -> Vec<UdpOut>;
    fn tcp_connect(&mut self, from: SocketAddr, to: SocketAddr) -> ConnectFate;
    fn tcp_message(&mut self, from: SocketAddr, to: SocketAddr, body: &[u8]) -> Option<TcpOut>;
}

// --------------------------------------------------------------------- state

struct UdpSock {
    label: String,
    local: SocketAddr,
    peer: Option<SocketAddr>,
    queue: VecDeque<(Vec<u8>, SocketAddr)>,
    waker: Option<Waker>,
    pending_refused: bool,
    life_idx: usize,
    /// Bound by the harness (clients, probes), not by the code under test.
    harness: bool,
    recv_n: u64,
    send_n: u64,
}

#[derive(Clone, Debug)]
pub struct SockLife {
    pub label: String,
    pub proto: &'static str,
    pub opened_ms: u64,
    pub closed_ms: Option<u64>,
}

#[derive(Clone, Debug)]
pub struct DestAttempt {
    pub ctx: String,
    pub proto: &'static str,
    pub addr: SocketAddr,
    pub at_ms: u64,
    pub ok: bool,
}

#[derive(Default)]
struct Pipe {
    buf: VecDeque<u8>,
    eof: bool,
    reset: bool,
    reader_gone: bool,
    waker: Option<Waker>,
    /// Virtual time (ms) of the last delivery scheduled into this pipe, so
    /// that later writes never overtake earlier ones.
    last_deliver_ms: u64,
    delivered: u64,
}

enum Far {
    Stream,
    Actor { acc: Vec<u8> },
}

struct Conn {
    label: String,
    a_addr: SocketAddr,
    b_addr: SocketAddr,
    a2b: Pipe,
    b2a: Pipe,
    far: Far,
    life_idx: usize,
}

struct Listener {
    local: SocketAddr,
    queue: VecDeque<(u64, SocketAddr)>,
    waker: Option<Waker>,
    accepts: u64,
}

#[derive(Default)]
pub struct NetState {
    next_id: u64,
    next_port: u16,
    udp: HashMap<u64, UdpSock>,
    udp_by_port: HashMap<u16, u64>,
    listeners: HashMap<u64, Listener>,
    listener_by_port: HashMap<u16, u64>,
    conns: HashMap<u64, Conn>,
    internet: Option<Rc<RefCell<dyn Internet>>>,
    /// Every datagram handed to a `recv`/`recv_from` call, as received.
    pub recv_log: Vec<(String, Vec<u8>)>,
    /// Every destination the host tried to reach, successful or not.
    pub dests: Vec<DestAttempt>,
    pub lives: Vec<SockLife>,
    /// Peers a `send_to` of the code under test failed for (injected error).
    pub send_failed_to: Vec<SocketAddr>,
    /// Labels of connections an injected accept error aborted.
    pub accept_aborted: Vec<String>,
}

impl NetState {
    pub fn set_internet(&mut self, actor: Rc<RefCell<dyn Internet>>) {
        self.internet = Some(actor);
    }

    pub fn clear_internet(&mut self) {
        self.internet = None;
    }

    fn alloc_id(&mut self) -> u64 {
        self.next_id += 1;
        self.next_id
    }

    fn alloc_port(&mut self) -> u16 {
        loop {
            let p = 20000 + (self.next_port % 40000);
            self.next_port = self.next_port.wrapping_add(1);
            if !self.udp_by_port.contains_key(&p) {
                return p;
            }
        }
    }
}

fn external_addr(local: SocketAddr) -> SocketAddr {
    match local.ip() {
        IpAddr::V4(ip) if ip.is_unspecified() => SocketAddr::new(IpAddr::V4(HOST_V4), local.port()),
        IpAddr::V6(ip) if ip.is_unspecified() => SocketAddr::new(IpAddr::V6(HOST_V6), local.port()),
        _ => local,
    }
}

fn now_ms() -> u64 {
    clock::elapsed_ms()
}

fn latency_ms(w: &mut World, site: &str, entity: &str) -> u64 {
    let min = w.profile.param_of("net.latency.min_ms", 1);
    let max_extra = w.profile.param_of("net.latency.max_extra_ms", 0);
    min + w.choose(site, entity, max_extra + 1)
}

fn resolve_addr<A: ToSocketAddrs>(addr: A) -> io::Result<SocketAddr> {
    addr.to_socket_addrs()?
        .next()
        .ok_or_else(|| io::Error::new(io::ErrorKind::InvalidInput, "no address"))
}

// ----------------------------------------------------------------------- UDP

#[derive(Debug)]
pub struct UdpSocket {
    id: u64,
}

impl UdpSocket {
    /// # Errors
    ///
    /// If the address is invalid or the port is taken.
    #[allow(clippy::unused_async)]
    pub async fn bind<A: ToSocketAddrs>(addr: A) -> io::Result<UdpSocket> {
        let addr = resolve_addr(addr)?;
        world::with(|w| {
            let label = w.next_label("u");
            // an ephemeral socket of the code under test may fail to open
            // (EMFILE, ENOBUFS); listening sockets are bound at start-up, before
            // the properties begin to apply
            if addr.port() == 0 && w.choose("udp.bind_error", &label, 2) == 1 {
                w.bump("fired.udp.bind_error");
                w.log_event("udp.bind_error", &label);
                return Err(io::Error::new(io::ErrorKind::Other, "injected bind error"));
            }
            udp_bind(w, addr, label, false)
        })
    }

    /// Harness side: bind with an explicit, stable label.
    ///
    /// # Errors
    ///
    /// If the port is taken.
    pub fn bind_labeled(addr: SocketAddr, label: &str) -> io::Result<UdpSocket> {
        world::with(|w| udp_bind(w, addr, label.to_string(), true))
    }

    /// # Errors
    ///
    /// If the address family does not match the socket.
    #[allow(clippy::unused_async)]
    pub async fn connect<A: ToSocketAddrs>(&self, addr: A) -> io::Result<()> {
        let addr = resolve_addr(addr)?;
        world::with(|w| {
            let ctx = w.ctx_label().to_string();
            let sock = w.net.udp.get_mut(&self.id).expect("udp socket gone");
            let ok = sock.local.is_ipv4() == addr.is_ipv4();
            if ok {
                sock.peer = Some(addr);
            }
            w.net.dests.push(DestAttempt {
                ctx,
                proto: "udp",
                addr,
                at_ms: now_ms(),
                ok,
            });
            w.log_event("udp.connect", &format!("{} -> {addr} ok={ok}", self.id_label(w)));
            if ok {
                Ok(())
            } else {
                w.bump("net.udp_connect_family_mismatch");
                Err(io::Error::new(
                    io::ErrorKind::InvalidInput,
                    "address family not supported by socket",
                ))
            }
        })
    }

    fn id_label(&self, w: &World) -> String {
        w.net
            .udp
            .get(&self.id)
            .map_or_else(|| "?".to_string(), |s| s.label.clone())
    }

    /// # Errors
    ///
    /// If the socket is not connected.
    #[allow(clippy::unused_async)]
    pub async fn send(&self, buf: &[u8]) -> io::Result<usize> {
        let peer = world::with(|w| w.net.udp.get(&self.id).and_then(|s| s.peer));
        match peer {
            Some(peer) => {
                udp_send_from_sock(self.id, peer, buf.to_vec());
                Ok(buf.len())
            }
            None => Err(io::Error::new(io::ErrorKind::NotConnected, "not connected")),
        }
    }

    /// # Errors
    ///
    /// Never, today.
    #[allow(clippy::unused_async)]
    pub async fn send_to<A: ToSocketAddrs>(&self, buf: &[u8], target: A) -> io::Result<usize> {
        let target = resolve_addr(target)?;
        // an unusual but legal outcome for the code under test: the send fails
        // (ENOBUFS, EPERM from a firewall, ENETUNREACH) and nothing leaves
        let failed = world::with(|w| {
            let Some(sock) = w.net.udp.get_mut(&self.id) else { return false };
            if sock.harness {
                return false;
            }
            sock.send_n += 1;
            let entity = format!("{}#s{}", sock.label, sock.send_n);
            if w.choose("udp.send_error", &entity, 2) == 1 {
                w.bump("fired.udp.send_error");
                w.log_event("udp.send_error", &format!("{entity} -> {target}"));
                w.net.send_failed_to.push(target);
                true
            } else {
                false
            }
        });
        if failed {
            return Err(io::Error::new(io::ErrorKind::Other, "injected send error"));
        }
        udp_send_from_sock(self.id, target, buf.to_vec());
        Ok(buf.len())
    }

    /// # Errors
    ///
    /// `ConnectionRefused` if a datagram sent earlier hit a closed port.
    pub async fn recv(&self, buf: &mut [u8]) -> io::Result<usize> {
        let (n, _) = self.recv_from(buf).await?;
        Ok(n)
    }

    /// # Errors
    ///
    /// `ConnectionRefused` if a datagram sent earlier hit a closed port (only
    /// on connected sockets, as on Linux).
    pub async fn recv_from(&self, buf: &mut [u8]) -> io::Result<(usize, SocketAddr)> {
        let id = self.id;
        poll_fn(|cx| {
            world::with(|w| {
                let sock = w.net.udp.get_mut(&id).expect("udp socket gone");
                if sock.pending_refused && sock.peer.is_some() {
                    sock.pending_refused = false;
                    return Poll::Ready(Err(io::Error::new(
                        io::ErrorKind::ConnectionRefused,
                        "connection refused",
                    )));
                }
                // an unusual but legal outcome on a listening socket of the code
                // under test: the call fails once (ENOMEM, ENOBUFS, an ICMP error
                // surfacing) although a datagram is waiting; it stays queued
                if !sock.harness && sock.peer.is_none() && !sock.queue.is_empty() {
                    sock.recv_n += 1;
                    let entity = format!("{}#r{}", sock.label, sock.recv_n);
                    if w.choose("udp.recv_error", &entity, 2) == 1 {
                        w.bump("fired.udp.recv_error");
                        w.log_event("udp.recv_error", &entity);
                        return Poll::Ready(Err(io::Error::new(io::ErrorKind::Other, "injected receive error")));
                    }
                }
                let sock = w.net.udp.get_mut(&id).expect("udp socket gone");
                if let Some((data, from)) = sock.queue.pop_front() {
                    let n = data.len().min(buf.len());
                    buf[..n].copy_from_slice(&data[..n]);
                    let label = sock.label.clone();
                    if n < data.len() {
                        w.bump("net.udp_recv_truncated_to_buffer");
                    }
                    w.log_event("udp.recv", &format!("{label} <- {from} len={}", data.len()));
                    if w.net.recv_log.len() < 100_000 {
                        w.net.recv_log.push((label, data[..n].to_vec()));
                    }
                    Poll::Ready(Ok((n, from)))
                } else {
                    sock.waker = Some(cx.waker().clone());
                    Poll::Pending
                }
            })
        })
        .await
    }

    pub fn local_addr(&self) -> io::Result<SocketAddr> {
        world::with(|w| Ok(w.net.udp.get(&self.id).expect("udp socket gone").local))
    }
}

impl Drop for UdpSocket {
    fn drop(&mut self) {
        let id = self.id;
        world::try_with(|w| {
            if let Some(sock) = w.net.udp.remove(&id) {
                w.net.udp_by_port.remove(&sock.local.port());
                w.net.lives[sock.life_idx].closed_ms = Some(now_ms());
                w.log_event("udp.close", &sock.label);
            }
        });
    }
}

fn udp_bind(w: &mut World, mut addr: SocketAddr, label: String, harness: bool) -> io::Result<UdpSocket> {
    if addr.port() == 0 {
        addr.set_port(w.net.alloc_port());
    } else if w.net.udp_by_port.contains_key(&addr.port()) {
        return Err(io::Error::new(io::ErrorKind::AddrInUse, "address in use"));
    }
    let id = w.net.alloc_id();
    let life_idx = w.net.lives.len();
    w.net.lives.push(SockLife {
        label: label.clone(),
        proto: "udp",
        opened_ms: now_ms(),
        closed_ms: None,
    });
    w.net.udp_by_port.insert(addr.port(), id);
    w.log_event("udp.bind", &format!("{label} {addr}"));
    w.net.udp.insert(
        id,
        UdpSock {
            label,
            local: addr,
            peer: None,
            queue: VecDeque::new(),
            waker: None,
            pending_refused: false,
            life_idx,
            harness,
            recv_n: 0,
            send_n: 0,
        },
    );
    Ok(UdpSocket { id })
}

fn udp_send_from_sock(id: u64, to: SocketAddr, data: Vec<u8>) {
    let sent = world::with(|w| {
        let sock = w.net.udp.get(&id)?;
        let from = external_addr(sock.local);
        let label = sock.label.clone();
        Some((from, label))
    });
    if let Some((from, label)) = sent {
        udp_transmit(from, &label, Some(id), to, data, 0);
    }
}

/// Put a datagram on the wire: decide its fate and schedule its delivery.
/// `src_label` names the sender for keyed decisions.
pub fn udp_transmit(
    from: SocketAddr,
    src_label: &str,
    src_sock: Option<u64>,
    to: SocketAddr,
    data: Vec<u8>,
    extra_delay_ms: u64,
) {
    let plan = world::with(|w| {
        let dst_label = if is_local_ip(to.ip()) {
            w.net
                .udp_by_port
                .get(&to.port())
                .and_then(|id| w.net.udp.get(id))
                .map_or_else(|| format!("closed:{}", to.port()), |s| s.label.clone())
        } else {
            to.to_string()
        };
        let entity = format!("{src_label}>{dst_label}");
        w.log_event(
            "udp.send",
            &format!("{entity} len={} {}", data.len(), digest(&data)),
        );
        // 0 deliver, 1 drop, 2 duplicate, 3 corrupt, 4 truncate
        let fate = w.choose("udp.fate", &entity, 5);
        let delay = latency_ms(w, "udp.delay", &entity) + extra_delay_ms;
        let mut out: Vec<(Vec<u8>, u64)> = Vec::new();
        match fate {
            1 => w.bump("fired.udp.drop"),
            2 => {
                w.bump("fired.udp.duplicate");
                let d2 = delay + 1 + w.derived("udp.dup_gap", &entity) % 50;
                out.push((data.clone(), delay));
                out.push((data, d2));
            }
            3 => {
                w.bump("fired.udp.corrupt");
                let mut d = data;
                if !d.is_empty() {
                    let h = w.derived("udp.corrupt_at", &entity);
                    let flips = 1 + (h >> 48) % 3;
                    for i in 0..flips {
                        let hh = crate::mix64(h ^ i);
                        let pos = usize::try_from(hh % d.len() as u64).unwrap();
                        d[pos] ^= 1 << ((hh >> 32) % 8);
                    }
                }
                out.push((d, delay));
            }
            4 => {
                w.bump("fired.udp.truncate");
                let mut d = data;
                if !d.is_empty() {
                    let h = w.derived("udp.truncate_at", &entity);
                    d.truncate(usize::try_from(h % d.len() as u64).unwrap());
                }
                out.push((d, delay));
            }
            _ => out.push((data, delay)),
        }
        out
    });
    for (bytes, delay) in plan {
        tokio::spawn(async move {
            tokio::time::sleep(Duration::from_millis(delay)).await;
            udp_deliver(from, src_sock, to, bytes);
        });
    }
}

fn udp_deliver(from: SocketAddr, src_sock: Option<u64>, to: SocketAddr, data: Vec<u8>) {
    if !world::is_installed() {
        return;
    }
    if is_local_ip(to.ip()) {
        world::with(|w| {
            let target = w.net.udp_by_port.get(&to.port()).copied();
            match target.and_then(|id| w.net.udp.get_mut(&id)) {
                Some(sock) => {
                    if let Some(peer) = sock.peer {
                        if peer != from {
                            // connected sockets only see their peer
                            let label = sock.label.clone();
                            w.log_event("udp.drop_not_peer", &format!("{label} from {from}"));
                            return;
                        }
                    }
                    sock.queue.push_back((data, from));
                    if let Some(wk) = sock.waker.take() {
                        wk.wake();
                    }
                }
                None => {
                    w.log_event("udp.closed_port", &format!("{to}"));
                    w.bump("net.udp_closed_port");
                    if let Some(src) = src_sock.and_then(|id| w.net.udp.get_mut(&id)) {
                        src.pending_refused = true;
                        if let Some(wk) = src.waker.take() {
                            wk.wake();
                        }
                    }
                }
            }
        });
    } else {
        let actor = world::with(|w| w.net.internet.clone());
        match actor {
            Some(actor) => {
                let replies = actor.borrow_mut().udp(from, to, &data);
                for r in replies {
                    let label = r.from.to_string();
                    udp_transmit(r.from, &label, None, from, r.data, r.delay_ms);
                }
            }
            None => world::with(|w| w.log_event("udp.no_internet", &format!("{to}"))),
        }
    }
}

/// Short, stable description of a payload for the event log.
fn digest(data: &[u8]) -> String {
    format!("h={:016x}", crate::hash_bytes(0, data))
}

// ----------------------------------------------------------------------- TCP

#[derive(Copy, Clone, Debug, Eq, PartialEq)]
enum Side {
    A,
    B,
}

#[derive(Debug)]
pub struct TcpStream {
    conn: u64,
    side: Side,
}

impl TcpStream {
    /// # Errors
    ///
    /// `ConnectionRefused` when the world or the far side says so.
    pub async fn connect<A: ToSocketAddrs>(addr: A) -> io::Result<TcpStream> {
        let addr = resolve_addr(addr)?;
        let label = world::with(|w| w.next_label("t"));
        Self::connect_labeled(addr, &label).await
    }

    /// Harness side: connect with an explicit, stable label.
    ///
    /// # Errors
    ///
    /// `ConnectionRefused` when the world or the far side says so.
    pub async fn connect_labeled(addr: SocketAddr, label: &str) -> io::Result<TcpStream> {
        // From here until the stream is dropped counts as one TCP attempt.
        let (life_idx, local, fate, delay) = world::with(|w| {
            let ctx = w.ctx_label().to_string();
            w.net.dests.push(DestAttempt {
                ctx,
                proto: "tcp",
                addr,
                at_ms: now_ms(),
                ok: true,
            });
            let life_idx = w.net.lives.len();
            w.net.lives.push(SockLife {
                label: label.to_string(),
                proto: "tcp",
                opened_ms: now_ms(),
                closed_ms: None,
            });
            let port = w.net.alloc_port();
            let local = if addr.is_ipv4() {
                SocketAddr::new(IpAddr::V4(HOST_V4), port)
            } else {
                SocketAddr::new(IpAddr::V6(HOST_V6), port)
            };
            let entity = format!("{label}>{addr}");
            w.log_event("tcp.connect", &entity);
            // 0 ok, 1 refused, 2 black hole
            let fate = w.choose("tcp.connect", &entity, 3);
            let delay = latency_ms(w, "tcp.delay", &entity);
            (life_idx, local, fate, delay)
        });
        let guard = LifeGuard { life_idx, armed: true };

        let far_fate = if fate == 0 && !is_local_ip(addr.ip()) {
            let actor = world::with(|w| w.net.internet.clone());
            match actor {
                Some(a) => a.borrow_mut().tcp_connect(local, addr),
                None => ConnectFate::Refuse,
            }
        } else {
            ConnectFate::Accept
        };

        tokio::time::sleep(Duration::from_millis(delay)).await;

        if fate == 2 || far_fate == ConnectFate::BlackHole {
            world::with(|w| w.bump("fired.tcp.connect_blackhole"));
            std::future::pending::<()>().await;
        }
        if fate == 1 || far_fate == ConnectFate::Refuse {
            world::with(|w| w.bump("fired.tcp.connect_refused"));
            return Err(io::Error::new(
                io::ErrorKind::ConnectionRefused,
                "connection refused",
            ));
        }

        let stream = world::with(|w| {
            let id = w.net.alloc_id();
            if is_local_ip(addr.ip()) {
                let Some(lid) = w.net.listener_by_port.get(&addr.port()).copied() else {
                    return Err(io::Error::new(
                        io::ErrorKind::ConnectionRefused,
                        "connection refused",
                    ));
                };
                w.net.conns.insert(
                    id,
                    Conn {
                        label: label.to_string(),
                        a_addr: local,
                        b_addr: addr,
                        a2b: Pipe::default(),
                        b2a: Pipe::default(),
                        far: Far::Stream,
                        life_idx,
                    },
                );
                let l = w.net.listeners.get_mut(&lid).expect("listener gone");
                l.queue.push_back((id, local));
                if let Some(wk) = l.waker.take() {
                    wk.wake();
                }
            } else {
                w.net.conns.insert(
                    id,
                    Conn {
                        label: label.to_string(),
                        a_addr: local,
                        b_addr: addr,
                        a2b: Pipe::default(),
                        b2a: Pipe::default(),
                        far: Far::Actor { acc: Vec::new() },
                        life_idx,
                    },
                );
            }
            w.log_event("tcp.established", &format!("{label}>{addr}"));
            Ok(TcpStream {
                conn: id,
                side: Side::A,
            })
        })?;
        let mut guard = guard;
        guard.armed = false;
        Ok(stream)
    }

    /// Harness side: send FIN but keep reading.
    pub fn shutdown_write(&self) {
        let (conn, side) = (self.conn, self.side);
        world::try_with(|w| schedule_eof(w, conn, side));
    }

    /// Harness side: abort the connection (RST).
    pub fn reset(&self) {
        let (conn, side) = (self.conn, self.side);
        world::try_with(|w| {
            if let Some(c) = w.net.conns.get_mut(&conn) {
                let (out, inc) = match side {
                    Side::A => (&mut c.a2b, &mut c.b2a),
                    Side::B => (&mut c.b2a, &mut c.a2b),
                };
                out.reset = true;
                out.buf.clear();
                if let Some(wk) = out.waker.take() {
                    wk.wake();
                }
                inc.reader_gone = true;
                inc.reset = true;
                let label = c.label.clone();
                w.log_event("tcp.reset", &label);
            }
        });
    }

    pub fn peer_addr(&self) -> io::Result<SocketAddr> {
        world::with(|w| {
            let c = w.net.conns.get(&self.conn).expect("conn gone");
            Ok(match self.side {
                Side::A => c.b_addr,
                Side::B => c.a_addr,
            })
        })
    }
}

/// Closes the life record of a TCP attempt whose `connect` never completed
/// (refused, black-holed and cancelled by the caller's timeout).
struct LifeGuard {
    life_idx: usize,
    armed: bool,
}

impl Drop for LifeGuard {
    fn drop(&mut self) {
        if self.armed {
            let idx = self.life_idx;
            world::try_with(|w| {
                w.net.lives[idx].closed_ms = Some(now_ms());
            });
        }
    }
}

fn schedule_eof(w: &mut World, conn: u64, side: Side) {
    let Some(c) = w.net.conns.get_mut(&conn) else {
        return;
    };
    let label = c.label.clone();
    let pipe = match side {
        Side::A => &mut c.a2b,
        Side::B => &mut c.b2a,
    };
    let min = 1;
    let at = pipe.last_deliver_ms.max(now_ms() + min);
    pipe.last_deliver_ms = at;
    let delay = at - now_ms();
    w.log_event("tcp.fin", &format!("{label} {side:?}"));
    tokio::spawn(async move {
        tokio::time::sleep(Duration::from_millis(delay)).await;
        world::try_with(|w| {
            if let Some(c) = w.net.conns.get_mut(&conn) {
                let pipe = match side {
                    Side::A => &mut c.a2b,
                    Side::B => &mut c.b2a,
                };
                pipe.eof = true;
                if let Some(wk) = pipe.waker.take() {
                    wk.wake();
                }
            }
        });
    });
}

impl Drop for TcpStream {
    fn drop(&mut self) {
        let (conn, side) = (self.conn, self.side);
        world::try_with(|w| {
            let Some(c) = w.net.conns.get_mut(&conn) else {
                return;
            };
            let inc = match side {
                Side::A => &mut c.b2a,
                Side::B => &mut c.a2b,
            };
            inc.reader_gone = true;
            inc.buf.clear();
            if side == Side::A {
                let idx = c.life_idx;
                w.net.lives[idx].closed_ms = Some(now_ms());
            }
            if tokio::runtime::Handle::try_current().is_ok() {
                schedule_eof(w, conn, side);
            }
        });
    }
}

/// Deliver `data` into the pipe that leaves `side` of `conn`, in segments.
/// `cut`: deliver only that many bytes, then apply `then`.
fn tcp_schedule_write(
    w: &mut World,
    conn: u64,
    side: Side,
    data: Vec<u8>,
    extra_delay_ms: u64,
    then: TcpThen,
) {
    let Some(c) = w.net.conns.get(&conn) else {
        return;
    };
    let entity = format!("{}.{side:?}", c.label);
    // 0 one segment, 1 one-byte segments, 2 two halves, 3 irregular chunks
    let seg = w.choose("tcp.segment", &entity, 4);
    let lat = latency_ms(w, "tcp.delay", &entity) + extra_delay_ms;
    let gap = 1 + w.profile.param_of("tcp.segment_gap_ms", 0);
    let len = data.len();
    let mut cuts: Vec<usize> = Vec::new();
    match seg {
        1 if len > 1 => {
            w.bump("fired.tcp.segment_bytes");
            let step = (len / 300).max(1);
            let mut i = step;
            while i < len {
                cuts.push(i);
                i += step;
            }
        }
        2 if len > 1 => {
            w.bump("fired.tcp.segment_halves");
            // bias towards splitting inside the two-byte length prefix
            let h = w.derived("tcp.segment_at", &entity);
            let at = if h % 3 == 0 {
                1
            } else {
                1 + usize::try_from(h % (len as u64 - 1)).unwrap()
            };
            cuts.push(at);
        }
        3 if len > 2 => {
            w.bump("fired.tcp.segment_chunks");
            let mut i = 0usize;
            let mut k = 0u64;
            loop {
                let h = crate::mix64(w.derived("tcp.segment_at", &entity) ^ k);
                i += 1 + usize::try_from(h % 97).unwrap();
                k += 1;
                if i >= len || cuts.len() > 300 {
                    break;
                }
                cuts.push(i);
            }
        }
        _ => {}
    }
    cuts.push(len);
    let c = w.net.conns.get_mut(&conn).expect("conn");
    let pipe = match side {
        Side::A => &mut c.a2b,
        Side::B => &mut c.b2a,
    };
    let mut at = pipe.last_deliver_ms.max(now_ms() + lat);
    let mut start = 0usize;
    let n_cuts = cuts.len();
    for (i, end) in cuts.into_iter().enumerate() {
        let chunk = data[start..end].to_vec();
        start = end;
        let last = i + 1 == n_cuts;
        let delay = at - now_ms();
        let then_here = if last { then } else { TcpThen::KeepOpen };
        tokio::spawn(async move {
            tokio::time::sleep(Duration::from_millis(delay)).await;
            tcp_deliver(conn, side, chunk, then_here);
        });
        if !last {
            at += gap;
        }
    }
    pipe.last_deliver_ms = at;
}

fn tcp_deliver(conn: u64, side: Side, chunk: Vec<u8>, then: TcpThen) {
    if !world::is_installed() {
        return;
    }
    // Returns framed bodies for the actor, if the far end is one.
    let bodies = world::with(|w| {
        let c = w.net.conns.get_mut(&conn)?;
        let pipe = match side {
            Side::A => &mut c.a2b,
            Side::B => &mut c.b2a,
        };
        pipe.delivered += chunk.len() as u64;
        let mut bodies: Vec<(SocketAddr, SocketAddr, Vec<u8>)> = Vec::new();
        if let (Side::A, Far::Actor { acc }) = (side, &mut c.far) {
            acc.extend_from_slice(&chunk);
            while acc.len() >= 2 {
                let n = usize::from(u16::from_be_bytes([acc[0], acc[1]]));
                if acc.len() < 2 + n {
                    break;
                }
                let body = acc[2..2 + n].to_vec();
                acc.drain(..2 + n);
                bodies.push((c.a_addr, c.b_addr, body));
            }
        } else if !pipe.reader_gone {
            pipe.buf.extend(chunk.iter());
        }
        match then {
            TcpThen::KeepOpen => {}
            TcpThen::Close => pipe.eof = true,
            TcpThen::Reset => {
                pipe.reset = true;
            }
        }
        if let Some(wk) = pipe.waker.take() {
            wk.wake();
        }
        Some(bodies)
    });
    let Some(bodies) = bodies else { return };
    for (from, to, body) in bodies {
        let actor = world::with(|w| w.net.internet.clone());
        if let Some(actor) = actor {
            let out = actor.borrow_mut().tcp_message(from, to, &body);
            if let Some(out) = out {
                world::with(|w| {
                    let mut data = out.data;
                    let mut then = out.then;
                    if let Some(cut) = out.cut_at {
                        data.truncate(cut);
                        if then == TcpThen::KeepOpen {
                            then = TcpThen::Close;
                        }
                    }
                    tcp_schedule_write(w, conn, Side::B, data, out.delay_ms, then);
                });
            }
        }
    }
}

impl AsyncRead for TcpStream {
    fn poll_read(
        self: Pin<&mut Self>,
        cx: &mut Context<'_>,
        buf: &mut ReadBuf<'_>,
    ) -> Poll<io::Result<()>> {
        let (conn, side) = (self.conn, self.side);
        world::with(|w| {
            let Some(c) = w.net.conns.get_mut(&conn) else {
                return Poll::Ready(Err(io::Error::new(
                    io::ErrorKind::NotConnected,
                    "connection gone",
                )));
            };
            let entity = format!("{}.{side:?}", c.label);
            let pipe = match side {
                Side::A => &mut c.b2a,
                Side::B => &mut c.a2b,
            };
            if !pipe.buf.is_empty() {
                let avail = pipe.buf.len().min(buf.remaining());
                if avail == 0 {
                    return Poll::Ready(Ok(()));
                }
                let k = w.choose("tcp.short_read", &entity, avail as u64);
                let c = w.net.conns.get_mut(&conn).expect("conn");
                let pipe = match side {
                    Side::A => &mut c.b2a,
                    Side::B => &mut c.a2b,
                };
                let n = if k == 0 {
                    avail
                } else {
                    usize::try_from(k).unwrap()
                };
                let bytes: Vec<u8> = pipe.buf.drain(..n).collect();
                buf.put_slice(&bytes);
                if k != 0 {
                    w.bump("fired.tcp.short_read");
                }
                w.log_event("tcp.read", &format!("{entity} n={n}"));
                return Poll::Ready(Ok(()));
            }
            if pipe.reset {
                w.log_event("tcp.read_reset", &entity);
                return Poll::Ready(Err(io::Error::new(
                    io::ErrorKind::ConnectionReset,
                    "connection reset by peer",
                )));
            }
            if pipe.eof {
                w.log_event("tcp.read_eof", &entity);
                return Poll::Ready(Ok(()));
            }
            pipe.waker = Some(cx.waker().clone());
            Poll::Pending
        })
    }
}

impl AsyncWrite for TcpStream {
    fn poll_write(
        self: Pin<&mut Self>,
        _cx: &mut Context<'_>,
        data: &[u8],
    ) -> Poll<io::Result<usize>> {
        let (conn, side) = (self.conn, self.side);
        world::with(|w| {
            let Some(c) = w.net.conns.get_mut(&conn) else {
                return Poll::Ready(Err(io::Error::new(
                    io::ErrorKind::NotConnected,
                    "connection gone",
                )));
            };
            let entity = format!("{}.{side:?}", c.label);
            let (out, inc) = match side {
                Side::A => (&c.a2b, &c.b2a),
                Side::B => (&c.b2a, &c.a2b),
            };
            if out.reader_gone || out.reset || inc.reset {
                w.log_event("tcp.write_broken", &entity);
                return Poll::Ready(Err(io::Error::new(
                    io::ErrorKind::BrokenPipe,
                    "broken pipe",
                )));
            }
            if data.is_empty() {
                return Poll::Ready(Ok(0));
            }
            let k = w.choose("tcp.partial_write", &entity, data.len() as u64);
            let n = if k == 0 {
                data.len()
            } else {
                w.bump("fired.tcp.partial_write");
                usize::try_from(k).unwrap()
            };
            w.log_event(
                "tcp.write",
                &format!("{entity} n={n} {}", digest(&data[..n])),
            );
            tcp_schedule_write(w, conn, side, data[..n].to_vec(), 0, TcpThen::KeepOpen);
            Poll::Ready(Ok(n))
        })
    }

    fn poll_flush(self: Pin<&mut Self>, _cx: &mut Context<'_>) -> Poll<io::Result<()>> {
        Poll::Ready(Ok(()))
    }

    fn poll_shutdown(self: Pin<&mut Self>, _cx: &mut Context<'_>) -> Poll<io::Result<()>> {
        self.shutdown_write();
        Poll::Ready(Ok(()))
    }
}

#[derive(Debug)]
pub struct TcpListener {
    id: u64,
}

impl TcpListener {
    /// # Errors
    ///
    /// If the port is taken.
    #[allow(clippy::unused_async)]
    pub async fn bind<A: ToSocketAddrs>(addr: A) -> io::Result<TcpListener> {
        let addr = resolve_addr(addr)?;
        world::with(|w| {
            if w.net.listener_by_port.contains_key(&addr.port()) {
                return Err(io::Error::new(io::ErrorKind::AddrInUse, "address in use"));
            }
            let id = w.net.alloc_id();
            w.net.listener_by_port.insert(addr.port(), id);
            w.net.listeners.insert(
                id,
                Listener {
                    local: addr,
                    queue: VecDeque::new(),
                    waker: None,
                    accepts: 0,
                },
            );
            w.log_event("tcp.listen", &format!("{addr}"));
            Ok(TcpListener { id })
        })
    }

    /// # Errors
    ///
    /// `ConnectionAborted` when the world injects an accept error.
    pub async fn accept(&self) -> io::Result<(TcpStream, SocketAddr)> {
        let id = self.id;
        poll_fn(|cx| {
            world::with(|w| {
                let l = w.net.listeners.get_mut(&id).expect("listener gone");
                if let Some((conn, peer)) = l.queue.pop_front() {
                    l.accepts += 1;
                    let attempt = l.accepts;
                    let label = w
                        .net
                        .conns
                        .get(&conn)
                        .map_or_else(String::new, |c| c.label.clone());
                    let fault = w.choose("tcp.accept_error", &format!("{label}#a{attempt}"), 3);
                    if fault == 2 {
                        // the process is out of descriptors (EMFILE) or memory for a
                        // moment: the call fails, the connection stays in the backlog
                        w.bump("fired.tcp.accept_error_backlog_kept");
                        w.log_event("tcp.accept_error", &format!("{label} (kept)"));
                        let l = w.net.listeners.get_mut(&id).expect("listener gone");
                        l.queue.push_front((conn, peer));
                        return Poll::Ready(Err(io::Error::new(
                            io::ErrorKind::Other,
                            "too many open files",
                        )));
                    }
                    if fault == 1 {
                        w.bump("fired.tcp.accept_error");
                        w.log_event("tcp.accept_error", &label);
                        w.net.accept_aborted.push(label.clone());
                        // the connection is gone, as with ECONNABORTED
                        if let Some(c) = w.net.conns.get_mut(&conn) {
                            c.a2b.reader_gone = true;
                            c.a2b.buf.clear();
                            c.b2a.reset = true;
                            if let Some(wk) = c.b2a.waker.take() {
                                wk.wake();
                            }
                        }
                        return Poll::Ready(Err(io::Error::new(
                            io::ErrorKind::ConnectionAborted,
                            "connection aborted",
                        )));
                    }
                    w.log_event("tcp.accept", &label);
                    Poll::Ready(Ok((
                        TcpStream {
                            conn,
                            side: Side::B,
                        },
                        peer,
                    )))
                } else {
                    l.waker = Some(cx.waker().clone());
                    Poll::Pending
                }
            })
        })
        .await
    }

    pub fn local_addr(&self) -> io::Result<SocketAddr> {
        world::with(|w| Ok(w.net.listeners.get(&self.id).expect("listener gone").local))
    }
}

impl Drop for TcpListener {
    fn drop(&mut self) {
        let id = self.id;
        world::try_with(|w| {
            if let Some(l) = w.net.listeners.remove(&id) {
                w.net.listener_by_port.remove(&l.local.port());
            }
        });
    }
}
