//! Virtual clock behind `dns_resolver::cache` (hook H3).
//!
//! The time line is nanoseconds since an arbitrary base.  The source is
//! thread-local: `Manual` (advanced explicitly by the cache simulators; shuttle
//! runs all of its threads on the one OS thread that owns the execution, so
//! they share it) or `Tokio` (the paused tokio clock of a simworld run).

use std::cell::Cell;
use std::ops::Add;
use std::time::Duration;

/// Start of the virtual time line, so that "before the run" is representable.
const BASE: u64 = 1_000_000_000_000;

#[derive(Copy, Clone, Eq, PartialEq, Ord, PartialOrd, Hash, Debug)]
pub struct Instant(u64);

#[derive(Copy, Clone, Eq, PartialEq, Debug)]
pub enum Source {
    Unset,
    Manual,
    Tokio,
}

/// Set by the real-time watchdog: the next clock read panics, which unwinds
/// the run (the code under test reads the clock in every cache lookup).
pub static ABORT: std::sync::atomic::AtomicBool = std::sync::atomic::AtomicBool::new(false);

/// Clock reads allowed at one virtual instant before the run is declared
/// stalled (a spin that makes no virtual progress never meets a timer).
pub const STALL_LIMIT: u64 = 1_000_000;

thread_local! {
    static LAST_INSTANT: Cell<u64> = const { Cell::new(u64::MAX) };
    static READS_AT_INSTANT: Cell<u64> = const { Cell::new(0) };
    static SOURCE: Cell<Source> = const { Cell::new(Source::Unset) };
    static MANUAL: Cell<u64> = const { Cell::new(0) };
    static TOKIO_BASE: Cell<Option<tokio::time::Instant>> = const { Cell::new(None) };
    static READS: Cell<u64> = const { Cell::new(0) };
    /// How far the clock the code under test reads runs ahead of the harness's
    /// time line: the sum of the stalls injected so far (fault `clock.stall`).
    static SKEW: Cell<u64> = const { Cell::new(0) };
    static STALLS_ON: Cell<bool> = const { Cell::new(false) };
}

/// Lengths of an injected stall (value 1.. of the `clock.stall` decision), ns.
pub const STALL_NS: [u64; 7] = [0, 1_000, 1_000_000, 150_000_000, 400_000_000, 700_000_000, 1_500_000_000];

/// Fault `clock.stall`: the process is held up (descheduled, paused) just before
/// a clock read of the code under test, so that two reads which are normally
/// microseconds apart see different times.  Decided per read by the installed
/// world; the harness's own time line (`elapsed_*`) is not moved.
pub fn enable_stalls(on: bool) {
    STALLS_ON.with(|c| c.set(on));
}

/// Total length of the stalls injected so far, in ns.
pub fn skew_nanos() -> u64 {
    SKEW.with(Cell::get)
}

/// The time the code under test would read now (no stall is drawn).
pub fn code_now_nanos() -> u64 {
    elapsed_nanos().saturating_add(skew_nanos())
}

/// Harness side: the clock reads made so far at this instant were the harness's
/// own (a reference model replaying operations), not a spin of the code under test.
pub fn forgive_reads() {
    READS_AT_INSTANT.with(|c| c.set(0));
}

impl Instant {
    /// # Panics
    ///
    /// If no clock source has been selected on this thread.
    pub fn now() -> Instant {
        READS.with(|r| r.set(r.get() + 1));
        if STALLS_ON.with(Cell::get) {
            let stall = crate::world::try_with(|w| {
                let entity = w.ctx_label().to_string();
                #[allow(clippy::cast_possible_truncation)]
                let v = w.choose("clock.stall", &entity, STALL_NS.len() as u64) as usize;
                if v > 0 {
                    w.bump("fired.clock.stall");
                    w.log_event("clock.stall", &format!("{entity} {}ns", STALL_NS[v]));
                }
                STALL_NS[v]
            })
            .unwrap_or(0);
            if stall > 0 {
                SKEW.with(|c| c.set(c.get().saturating_add(stall)));
            }
        }
        let now = elapsed_nanos().saturating_add(SKEW.with(Cell::get));
        if LAST_INSTANT.with(Cell::get) == now {
            let n = READS_AT_INSTANT.with(|c| {
                c.set(c.get() + 1);
                c.get()
            });
            if n > STALL_LIMIT {
                READS_AT_INSTANT.with(|c| c.set(0));
                panic!("STALL: {n} clock reads by the code under test without virtual time advancing");
            }
            if n % 4096 == 0 && ABORT.load(std::sync::atomic::Ordering::Relaxed) {
                panic!("ABORT: real-time watchdog");
            }
        } else {
            LAST_INSTANT.with(|c| c.set(now));
            READS_AT_INSTANT.with(|c| c.set(0));
        }
        Instant(BASE + now)
    }

    pub fn saturating_duration_since(&self, earlier: Instant) -> Duration {
        Duration::from_nanos(self.0.saturating_sub(earlier.0))
    }

    /// Nanoseconds since the start of the run (harness side).
    pub fn since_start_nanos(&self) -> u64 {
        self.0.saturating_sub(BASE)
    }
}

impl Add<Duration> for Instant {
    type Output = Instant;

    fn add(self, rhs: Duration) -> Instant {
        let nanos = u64::try_from(rhs.as_nanos()).unwrap_or(u64::MAX);
        Instant(self.0.saturating_add(nanos))
    }
}

/// Nanoseconds of virtual time since the run started.
///
/// # Panics
///
/// If no clock source has been selected on this thread.
pub fn elapsed_nanos() -> u64 {
    match SOURCE.with(Cell::get) {
        Source::Manual => MANUAL.with(Cell::get),
        Source::Tokio => {
            let base = TOKIO_BASE
                .with(Cell::get)
                .expect("simseam::clock: tokio source without base");
            u64::try_from(
                tokio::time::Instant::now()
                    .saturating_duration_since(base)
                    .as_nanos(),
            )
            .unwrap_or(u64::MAX)
        }
        Source::Unset => panic!(
            "simseam::clock used with no clock source installed (seam called outside a simulation)"
        ),
    }
}

pub fn elapsed_ms() -> u64 {
    elapsed_nanos() / 1_000_000
}

/// Select the manual clock and reset it to zero.
pub fn use_manual() {
    SOURCE.with(|s| s.set(Source::Manual));
    MANUAL.with(|m| m.set(0));
    READS.with(|r| r.set(0));
    SKEW.with(|c| c.set(0));
    STALLS_ON.with(|c| c.set(false));
}

/// Select the tokio (paused) clock; "now" becomes time zero of the run.  Must
/// be called inside the runtime.
pub fn use_tokio() {
    TOKIO_BASE.with(|b| b.set(Some(tokio::time::Instant::now())));
    SOURCE.with(|s| s.set(Source::Tokio));
    READS.with(|r| r.set(0));
    SKEW.with(|c| c.set(0));
    STALLS_ON.with(|c| c.set(false));
}

pub fn unset() {
    SOURCE.with(|s| s.set(Source::Unset));
    LAST_INSTANT.with(|c| c.set(u64::MAX));
    READS_AT_INSTANT.with(|c| c.set(0));
    SKEW.with(|c| c.set(0));
    STALLS_ON.with(|c| c.set(false));
}

pub fn source() -> Source {
    SOURCE.with(Cell::get)
}

/// Set the manual clock to an absolute value (nanoseconds since the start).
pub fn set_manual(nanos: u64) {
    MANUAL.with(|m| m.set(nanos));
}

/// Advance the manual clock.
pub fn advance(d: Duration) {
    let nanos = u64::try_from(d.as_nanos()).unwrap_or(u64::MAX);
    MANUAL.with(|m| m.set(m.get().saturating_add(nanos)));
}

/// How often the code under test read the clock (seam liveness self-test).
pub fn reads() -> u64 {
    READS.with(Cell::get)
}
