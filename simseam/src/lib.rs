//! Simulation seams for `barrucadu/resolved`.
//!
//! Everything the code under test sees when it is built with
//! `--cfg resolved_verif` lives in `clock`, `sync`, `rng`, `order`, `trace`,
//! `net`, `fs` and `signal`.  `world` is the harness side: the per-run
//! simulated world that owns every decision (latency, loss, faults, orders).
//!
//! A world is installed in a thread-local for the duration of one run; a seam
//! call made while no world is installed panics loudly (a forgotten seam must
//! never fall back to the real OS).

#[cfg(not(resolved_verif))]
compile_error!("simseam must be built with --cfg resolved_verif (see /verif/.cargo/config.toml)");

pub mod clock;
pub mod fs;
pub mod net;
pub mod order;
pub mod rng;
pub mod signal;
pub mod sync;
pub mod trace;
pub mod world;

/// splitmix64 finaliser: the only mixing function used for keyed decisions.
#[inline]
pub fn mix64(mut z: u64) -> u64 {
    z = z.wrapping_add(0x9E37_79B9_7F4A_7C15);
    z = (z ^ (z >> 30)).wrapping_mul(0xBF58_476D_1CE4_E5B9);
    z = (z ^ (z >> 27)).wrapping_mul(0x94D0_49BB_1331_11EB);
    z ^ (z >> 31)
}

/// FNV-1a over bytes, then mixed.  Stable across processes (no `RandomState`).
#[inline]
pub fn hash_bytes(seed: u64, bytes: &[u8]) -> u64 {
    let mut h: u64 = 0xcbf2_9ce4_8422_2325 ^ seed;
    for b in bytes {
        h ^= u64::from(*b);
        h = h.wrapping_mul(0x0000_0100_0000_01B3);
    }
    mix64(h)
}
