//! Request IDs (hook H2): a function of (seed, context label, counter), never
//! of `rand::rng()`.

use crate::world;

pub fn set_request_id(id: &mut u16) {
    *id = world::with(|w| {
        let ctx = w.ctx_label().to_string();
        #[allow(clippy::cast_possible_truncation)]
        let v = w.derived("rng.request_id", &ctx) as u16;
        v
    });
}
