//! Simulated SIGUSR1 (hook H7).  Like the real thing it coalesces: signals
//! raised while the handler is busy collapse into one pending flag.

use std::future::poll_fn;
use std::io;
use std::task::{Poll, Waker};

use crate::world;

#[derive(Default)]
pub struct SignalState {
    pending: bool,
    waker: Option<Waker>,
    subscribed: bool,
    pub raised: u64,
    pub delivered: u64,
}

impl SignalState {
    pub fn is_subscribed(&self) -> bool {
        self.subscribed
    }

    pub fn is_pending(&self) -> bool {
        self.pending
    }
}

#[derive(Copy, Clone, Debug)]
pub struct SignalKind;

impl SignalKind {
    pub fn user_defined1() -> Self {
        SignalKind
    }
}

#[derive(Debug)]
pub struct Signal;

/// # Errors
///
/// Never, today.
pub fn signal(_kind: SignalKind) -> io::Result<Signal> {
    world::with(|w| {
        w.sig.subscribed = true;
        w.log_event("signal.subscribe", "");
    });
    Ok(Signal)
}

impl Signal {
    pub async fn recv(&mut self) -> Option<()> {
        poll_fn(|cx| {
            world::with(|w| {
                if w.sig.pending {
                    w.sig.pending = false;
                    w.sig.delivered += 1;
                    w.log_event("signal.recv", "");
                    let at_ms = crate::clock::elapsed_ms();
                    w.fs.log.push(crate::fs::FsEvent::Mark { at_ms });
                    Poll::Ready(Some(()))
                } else {
                    w.sig.waker = Some(cx.waker().clone());
                    Poll::Pending
                }
            })
        })
        .await
    }
}

/// Harness side: the operator sends SIGUSR1.
pub fn raise_sigusr1() {
    world::with(|w| {
        w.sig.raised += 1;
        if w.sig.pending {
            w.bump("probe.signal_coalesced");
        }
        w.sig.pending = true;
        w.log_event("signal.raise", "");
        if let Some(wk) = w.sig.waker.take() {
            wk.wake();
        }
    });
}
