//! Simulated file access (hook H6): `read_dir` and `read_to_string`.
//!
//! Files are real files in a run-private scratch directory (the loader also
//! calls `Path::is_dir`).  The std call is made synchronously on the world
//! thread - no blocking pool - and then the world's decisions apply: listing
//! order, latency (so other tasks run between two reads), injected errors.
//! Every result is logged so that the oracles know exactly what the loader
//! was given.  In replay mode the recorded results are served instead.

use std::collections::{HashMap, VecDeque};
use std::io;
use std::path::{Path, PathBuf};
use std::time::Duration;

use crate::world::{self, World};

#[derive(Clone, Debug)]
pub enum FsOutcome<T> {
    Ok(T),
    Err(io::ErrorKind),
}

#[derive(Clone, Debug)]
pub enum FsEvent {
    List {
        dir: PathBuf,
        outcome: FsOutcome<Vec<PathBuf>>,
    },
    Read {
        path: PathBuf,
        outcome: FsOutcome<String>,
    },
    /// SIGUSR1 was delivered to the reload task at this virtual time (ms):
    /// what follows belongs to the next load.
    Mark {
        at_ms: u64,
    },
}

#[derive(Default)]
pub struct FsState {
    /// Run-private scratch root: decisions and log lines name files relative
    /// to it, so that they do not depend on the process that runs them.
    pub root: PathBuf,
    /// Everything the code under test was given, in order.
    pub log: Vec<FsEvent>,
    /// Replay mode: serve these instead of touching the disk.
    replay_lists: HashMap<PathBuf, VecDeque<FsOutcome<Vec<PathBuf>>>>,
    replay_reads: HashMap<PathBuf, VecDeque<FsOutcome<String>>>,
    replaying: bool,
}

impl FsState {
    /// Serve exactly `events` (per path, in order) instead of the disk.
    pub fn set_replay(&mut self, events: &[FsEvent]) {
        self.replaying = true;
        self.replay_lists.clear();
        self.replay_reads.clear();
        for e in events {
            match e {
                FsEvent::List { dir, outcome } => self
                    .replay_lists
                    .entry(dir.clone())
                    .or_default()
                    .push_back(outcome.clone()),
                FsEvent::Read { path, outcome } => self
                    .replay_reads
                    .entry(path.clone())
                    .or_default()
                    .push_back(outcome.clone()),
                FsEvent::Mark { .. } => {}
            }
        }
    }

    pub fn clear_replay(&mut self) {
        self.replaying = false;
        self.replay_lists.clear();
        self.replay_reads.clear();
    }

    pub fn take_log(&mut self) -> Vec<FsEvent> {
        std::mem::take(&mut self.log)
    }
}

fn entity_of(path: &Path) -> String {
    let root = world::with(|w| w.fs.root.clone());
    path.strip_prefix(&root)
        .unwrap_or(path)
        .to_string_lossy()
        .to_string()
}

async fn latency(site: &str, entity: &str) {
    let ms = world::with(|w| {
        let max = w.profile.param_of("fs.latency.max_ms", 0);
        w.choose(site, entity, max + 1)
    });
    if ms > 0 {
        tokio::time::sleep(Duration::from_millis(ms)).await;
    } else {
        tokio::task::yield_now().await;
    }
}

fn injected_error(w: &mut World, site: &str, entity: &str) -> Option<io::ErrorKind> {
    // 0 none, 1 EIO-like, 2 EACCES, 3 ENOENT
    match w.choose(site, entity, 4) {
        1 => Some(io::ErrorKind::Other),
        2 => Some(io::ErrorKind::PermissionDenied),
        3 => Some(io::ErrorKind::NotFound),
        _ => None,
    }
}

pub struct DirEntry {
    path: PathBuf,
}

impl DirEntry {
    pub fn path(&self) -> PathBuf {
        self.path.clone()
    }
}

pub struct ReadDir {
    entries: VecDeque<PathBuf>,
}

impl ReadDir {
    /// # Errors
    ///
    /// Never, today: listing errors surface from `read_dir` itself.
    #[allow(clippy::unused_async)]
    pub async fn next_entry(&mut self) -> io::Result<Option<DirEntry>> {
        Ok(self.entries.pop_front().map(|path| DirEntry { path }))
    }
}

/// # Errors
///
/// Real or injected I/O errors.
pub async fn read_dir(path: impl AsRef<Path>) -> io::Result<ReadDir> {
    let dir = path.as_ref().to_path_buf();
    let entity = entity_of(&dir);
    latency("fs.list_delay", &entity).await;
    let outcome = world::with(|w| {
        if w.fs.replaying {
            return w
                .fs
                .replay_lists
                .get_mut(&dir)
                .and_then(VecDeque::pop_front)
                .unwrap_or(FsOutcome::Err(io::ErrorKind::NotFound));
        }
        if let Some(kind) = injected_error(w, "fs.list_error", &entity) {
            w.bump("fired.fs.list_error");
            return FsOutcome::Err(kind);
        }
        match std::fs::read_dir(&dir) {
            Ok(rd) => {
                let mut names: Vec<PathBuf> = rd.filter_map(Result::ok).map(|e| e.path()).collect();
                names.sort();
                // keyed permutation of the sorted listing
                let n = names.len();
                if n > 1 {
                    let mut fact: u64 = 1;
                    for i in 2..=n.min(10) as u64 {
                        fact *= i;
                    }
                    let mut k = w.choose("fs.list_order", &entity, fact);
                    if k != 0 {
                        w.bump("fired.fs.list_order");
                    }
                    let m = n.min(10);
                    for i in 0..m {
                        let radix = (m - i) as u64;
                        let j = usize::try_from(k % radix).unwrap();
                        k /= radix;
                        names.swap(i, i + j);
                    }
                }
                FsOutcome::Ok(names)
            }
            Err(e) => FsOutcome::Err(e.kind()),
        }
    });
    world::with(|w| {
        w.log_event("fs.list", &format!("{entity} {}", describe_list(&outcome)));
        w.fs.log.push(FsEvent::List {
            dir: dir.clone(),
            outcome: outcome.clone(),
        });
    });
    match outcome {
        FsOutcome::Ok(names) => Ok(ReadDir {
            entries: names.into(),
        }),
        FsOutcome::Err(kind) => Err(io::Error::new(kind, "simulated listing failure")),
    }
}

fn describe_list(o: &FsOutcome<Vec<PathBuf>>) -> String {
    match o {
        FsOutcome::Ok(v) => format!(
            "ok [{}]",
            v.iter()
                .map(|p| p.file_name().map_or_else(String::new, |f| f.to_string_lossy().to_string()))
                .collect::<Vec<_>>()
                .join(",")
        ),
        FsOutcome::Err(k) => format!("err {k:?}"),
    }
}

/// # Errors
///
/// Real or injected I/O errors, `InvalidData` for non-UTF-8 content.
pub async fn read_to_string(path: impl AsRef<Path>) -> io::Result<String> {
    let path = path.as_ref().to_path_buf();
    let entity = entity_of(&path);
    latency("fs.read_delay", &entity).await;
    let outcome = world::with(|w| {
        if w.fs.replaying {
            return w
                .fs
                .replay_reads
                .get_mut(&path)
                .and_then(VecDeque::pop_front)
                .unwrap_or(FsOutcome::Err(io::ErrorKind::NotFound));
        }
        if let Some(kind) = injected_error(w, "fs.read_error", &entity) {
            w.bump("fired.fs.read_error");
            return FsOutcome::Err(kind);
        }
        match std::fs::read(&path) {
            Ok(bytes) => match String::from_utf8(bytes) {
                Ok(s) => FsOutcome::Ok(s),
                Err(_) => FsOutcome::Err(io::ErrorKind::InvalidData),
            },
            Err(e) => FsOutcome::Err(e.kind()),
        }
    });
    world::with(|w| {
        let d = match &outcome {
            FsOutcome::Ok(s) => format!("ok len={} h={:016x}", s.len(), crate::hash_bytes(0, s.as_bytes())),
            FsOutcome::Err(k) => format!("err {k:?}"),
        };
        w.log_event("fs.read", &format!("{entity} {d}"));
        w.fs.log.push(FsEvent::Read {
            path: path.clone(),
            outcome: outcome.clone(),
        });
    });
    match outcome {
        FsOutcome::Ok(s) => Ok(s),
        FsOutcome::Err(kind) => Err(io::Error::new(kind, "simulated read failure")),
    }
}
