//! Trace points inside the recursive resolver (hook H5).

use std::net::IpAddr;

use crate::world;

/// Called right before the recursive resolver sends `question` to `ip`, with
/// the label count of the delegation it is currently using.
pub fn upstream_query<Q: std::fmt::Display>(question: &Q, ip: IpAddr, match_count: usize) {
    world::with(|w| {
        let q = question.to_string();
        w.log_event("trace.upstream_query", &format!("{q} -> {ip} m={match_count}"));
        let ctx = w.ctx_label().to_string();
        let at_ms = crate::clock::elapsed_ms();
        let entry = world::UpstreamQuery {
            ctx,
            question: q,
            ip,
            match_count,
            at_ms,
        };
        if let Some(mut hook) = w.on_upstream_query.take() {
            hook(&entry);
            w.on_upstream_query = Some(hook);
        }
        w.trace.push(entry);
    });
}

/// Called for every attempt of the recursive resolver to find a name
/// server's address: the question it is about to try and whether it only
/// looks locally.
pub fn address_lookup<Q: std::fmt::Display>(question: &Q, locally: bool) {
    world::with(|w| {
        let q = question.to_string();
        w.log_event("trace.address_lookup", &format!("{q} local={locally}"));
        let ctx = w.ctx_label().to_string();
        w.address_lookup_count += 1;
        if w.address_lookups.len() < 50_000 {
            w.address_lookups.push(world::AddressLookup {
                ctx,
                question: q,
                locally,
            });
        }
    });
}
