//! Trace points inside the recursive resolver (hook H5).

use std::net::IpAddr;

use crate::world;

/// Called right before the recursive resolver sends `question` to `ip`, with
/// the label count of the delegation it is currently using.
pub fn upstream_query<Q: std::fmt::Display>(question: &Q, ip: IpAddr, match_count: usize) {
    world::with(|w| {
        let q = question.to_string();
        w.log_event("trace.upstream_query", &format!("{q} -> {ip} m={match_count}"));
        let ctx = w.ctx_label().to_string();
        let at_ms = crate::clock::elapsed_ms();
        w.trace.push(world::UpstreamQuery {
            ctx,
            question: q,
            ip,
            match_count,
            at_ms,
        });
    });
}
