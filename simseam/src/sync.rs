//! `Arc`/`Mutex` behind `SharedCache` (hook H3): std's own types, or shuttle's
//! when the `shuttle` feature is on (then they only work inside a shuttle
//! execution).

#[cfg(not(feature = "shuttle"))]
pub use std::sync::{Arc, Mutex};

#[cfg(feature = "shuttle")]
pub use shuttle::sync::{Arc, Mutex};
