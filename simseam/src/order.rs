//! Order of name-server candidates (hook H5).  In production this is the
//! iteration order of a `HashSet` seeded per process by the OS; here it is
//! sorted order, then a permutation chosen by the world (benign default: the
//! sorted order itself).

use crate::world;

pub fn permute<T: Ord>(items: &mut Vec<T>) {
    items.sort();
    let n = items.len();
    if n < 2 {
        return;
    }
    let mut fact: u64 = 1;
    for i in 2..=n.min(10) as u64 {
        fact *= i;
    }
    let mut k = world::with(|w| {
        let ctx = format!("{}.cand", w.ctx_label());
        w.choose_uniform("order.permute", &ctx, fact)
    });
    // Lehmer code -> permutation, in place.
    let m = n.min(10);
    for i in 0..m {
        let radix = (m - i) as u64;
        let j = usize::try_from(k % radix).unwrap();
        k /= radix;
        items.swap(i, i + j);
    }
}

/// Order of the records of an ANY answer (hook H10): in production the
/// iteration order of a per-name `HashMap` keyed by record type, seeded per
/// process by the OS.  Here: sorted, then (inside a simulated world) a keyed
/// permutation, benign default the sorted order.  Outside a world (the
/// harness's own oracle calls) it is just sorted.
pub fn canonical<T: Ord>(items: &mut Vec<T>, site: &str) {
    items.sort();
    let n = items.len();
    if n < 2 || !world::is_installed() {
        return;
    }
    let mut fact: u64 = 1;
    for i in 2..=n.min(8) as u64 {
        fact *= i;
    }
    let mut k = world::with(|w| {
        let entity = format!("{}.{site}", w.ctx_label());
        w.choose("order.any_answer", &entity, fact)
    });
    let m = n.min(8);
    for i in 0..m {
        let radix = (m - i) as u64;
        let j = usize::try_from(k % radix).unwrap();
        k /= radix;
        items.swap(i, i + j);
    }
}
