//! The per-run simulated world (harness side).
//!
//! One integer decides everything: every choice made while a run executes is
//! `hash(seed, site, entity, n)` ("keyed decision"), where `site` names the
//! kind of choice, `entity` is a stable name for the thing it applies to, and
//! `n` counts choices of that kind for that entity.  Keys do not move when an
//! unrelated part of the plan is removed, which is what lets the minimiser
//! shrink a failing run.  In `Explicit` mode (replay of a minimised file) a
//! key takes the value listed in the replay file, or its benign default `0`.

use std::cell::RefCell;
use std::collections::{BTreeMap, HashMap};
use std::net::IpAddr;

use crate::fs::FsState;
use crate::net::NetState;
use crate::signal::SignalState;
use crate::{hash_bytes, mix64};

#[derive(Copy, Clone, Eq, PartialEq, Debug)]
pub enum Mode {
    /// Decisions are drawn from the seed.
    Seeded,
    /// Decisions are the listed ones; everything else is benign.
    Explicit,
}

#[derive(Clone, Debug, Eq, PartialEq)]
pub struct Decision {
    pub site: String,
    pub entity: String,
    pub n: u32,
    pub value: u64,
}

#[derive(Clone, Debug)]
pub struct UpstreamQuery {
    pub ctx: String,
    pub question: String,
    pub ip: IpAddr,
    pub match_count: usize,
    pub at_ms: u64,
}

#[derive(Clone, Debug)]
pub struct AddressLookup {
    pub ctx: String,
    /// `"<name> IN <type>"`
    pub question: String,
    pub locally: bool,
}

/// Per-run fault profile: probability that a site takes a non-benign value,
/// and numeric parameters (maximum delays and the like).
#[derive(Clone, Debug, Default)]
pub struct Profile {
    pub p: BTreeMap<String, f64>,
    pub param: BTreeMap<String, u64>,
}

impl Profile {
    pub fn set_p(&mut self, site: &str, p: f64) {
        self.p.insert(site.to_string(), p);
    }

    pub fn set_param(&mut self, name: &str, v: u64) {
        self.param.insert(name.to_string(), v);
    }

    pub fn p_of(&self, site: &str) -> f64 {
        self.p.get(site).copied().unwrap_or(0.0)
    }

    pub fn param_of(&self, name: &str, default: u64) -> u64 {
        self.param.get(name).copied().unwrap_or(default)
    }
}

pub struct World {
    pub seed: u64,
    pub mode: Mode,
    overrides: HashMap<(String, String, u32), u64>,
    counters: HashMap<(String, String), u32>,
    /// Non-benign decisions actually taken, in order.
    pub taken: Vec<Decision>,
    pub profile: Profile,
    ctx: String,
    label_counters: HashMap<String, u32>,
    log_hash: u64,
    log_count: u64,
    /// Full text of the event log, when recording is on.
    pub log_text: Option<Vec<String>>,
    pub trace: Vec<UpstreamQuery>,
    pub address_lookups: Vec<AddressLookup>,
    pub address_lookup_count: u64,
    /// Harness callback run at every upstream-query trace point (it must not
    /// touch the world: it is called while the world is borrowed).
    pub on_upstream_query: Option<Box<dyn FnMut(&UpstreamQuery)>>,
    /// Fault-fired counters and rare-branch probes.
    pub stats: BTreeMap<String, u64>,
    pub net: NetState,
    pub fs: FsState,
    pub sig: SignalState,
}

thread_local! {
    static WORLD: RefCell<Option<World>> = const { RefCell::new(None) };
}

/// Install a world on this thread.
///
/// # Panics
///
/// If one is already installed.
pub fn install(world: World) {
    WORLD.with(|w| {
        let mut slot = w.borrow_mut();
        assert!(slot.is_none(), "simseam: a world is already installed");
        *slot = Some(world);
    });
}

/// Remove the world from this thread and return it.
pub fn uninstall() -> Option<World> {
    WORLD.with(|w| w.borrow_mut().take())
}

pub fn is_installed() -> bool {
    WORLD.with(|w| w.borrow().is_some())
}

/// Run `f` with the installed world.
///
/// # Panics
///
/// If no world is installed: a seam was reached outside a simulation.
pub fn with<R>(f: impl FnOnce(&mut World) -> R) -> R {
    WORLD.with(|w| {
        let mut slot = w
            .try_borrow_mut()
            .expect("simseam: re-entrant use of the world");
        let world = slot
            .as_mut()
            .expect("simseam: seam reached while no simulated world is installed");
        f(world)
    })
}

/// Like `with`, but does nothing when there is no world (used in `Drop`).
pub fn try_with<R>(f: impl FnOnce(&mut World) -> R) -> Option<R> {
    WORLD.with(|w| {
        let mut slot = w.try_borrow_mut().ok()?;
        slot.as_mut().map(f)
    })
}

impl World {
    pub fn new(seed: u64) -> Self {
        World {
            seed,
            mode: Mode::Seeded,
            overrides: HashMap::new(),
            counters: HashMap::new(),
            taken: Vec::new(),
            profile: Profile::default(),
            ctx: "main".to_string(),
            label_counters: HashMap::new(),
            log_hash: mix64(seed),
            log_count: 0,
            log_text: None,
            trace: Vec::new(),
            address_lookups: Vec::new(),
            address_lookup_count: 0,
            on_upstream_query: None,
            stats: BTreeMap::new(),
            net: NetState::default(),
            fs: FsState::default(),
            sig: SignalState::default(),
        }
    }

    /// Replay mode: only the listed decisions are non-benign.
    pub fn new_explicit(seed: u64, decisions: &[Decision]) -> Self {
        let mut w = World::new(seed);
        w.mode = Mode::Explicit;
        for d in decisions {
            w.overrides
                .insert((d.site.clone(), d.entity.clone(), d.n), d.value);
        }
        w
    }

    pub fn record_log(&mut self, on: bool) {
        self.log_text = if on { Some(Vec::new()) } else { None };
    }

    // ---------------------------------------------------------------- labels

    /// Context label: the harness names the part of the plan that is running
    /// (`q3` = fourth question) so that entities created by the code under
    /// test get stable names.
    pub fn set_ctx(&mut self, ctx: &str) {
        self.ctx = ctx.to_string();
    }

    pub fn ctx_label(&self) -> &str {
        &self.ctx
    }

    /// `"{ctx}.{prefix}{k}"`, k counting per (ctx, prefix).
    pub fn next_label(&mut self, prefix: &str) -> String {
        let key = format!("{}.{}", self.ctx, prefix);
        let k = self.label_counters.entry(key.clone()).or_insert(0);
        let label = format!("{key}{k}");
        *k += 1;
        label
    }

    // ------------------------------------------------------------- decisions

    fn next_n(&mut self, site: &str, entity: &str) -> u32 {
        let c = self
            .counters
            .entry((site.to_string(), entity.to_string()))
            .or_insert(0);
        let n = *c;
        *c += 1;
        n
    }

    fn key_hash(&self, site: &str, entity: &str, n: u32) -> u64 {
        let mut h = hash_bytes(self.seed, site.as_bytes());
        h = hash_bytes(h, entity.as_bytes());
        mix64(h ^ u64::from(n))
    }

    /// A fault-like decision with `options` possible values, `0` being benign.
    /// In seeded mode it is non-benign with the profile's probability for
    /// `site`, then uniform over `1..options`.
    pub fn choose(&mut self, site: &str, entity: &str, options: u64) -> u64 {
        let n = self.next_n(site, entity);
        if options < 2 {
            return 0;
        }
        let value = match self.mode {
            Mode::Explicit => self
                .overrides
                .get(&(site.to_string(), entity.to_string(), n))
                .copied()
                .unwrap_or(0)
                .min(options - 1),
            Mode::Seeded => {
                let p = self.profile.p_of(site);
                if p <= 0.0 {
                    0
                } else {
                    let h = self.key_hash(site, entity, n);
                    #[allow(clippy::cast_precision_loss)]
                    let u = (h >> 11) as f64 / (1u64 << 53) as f64;
                    if u < p {
                        1 + mix64(h) % (options - 1)
                    } else {
                        0
                    }
                }
            }
        };
        if value != 0 {
            self.taken.push(Decision {
                site: site.to_string(),
                entity: entity.to_string(),
                n,
                value,
            });
            *self.stats.entry(format!("decided.{site}")).or_insert(0) += 1;
        }
        value
    }

    /// Alias of `choose` for sites whose values are an index (permutations,
    /// delays): benign is still `0`.
    pub fn choose_uniform(&mut self, site: &str, entity: &str, options: u64) -> u64 {
        self.choose(site, entity, options)
    }

    /// A value that is always a function of the seed and the key (request
    /// IDs): not a fault, not recorded, identical in both modes.
    pub fn derived(&mut self, site: &str, entity: &str) -> u64 {
        let n = self.next_n(site, entity);
        self.key_hash(site, entity, n)
    }

    // ----------------------------------------------------------------- stats

    pub fn bump(&mut self, name: &str) {
        *self.stats.entry(name.to_string()).or_insert(0) += 1;
    }

    pub fn stat(&self, name: &str) -> u64 {
        self.stats.get(name).copied().unwrap_or(0)
    }

    // ------------------------------------------------------------- event log

    /// Append to the event log.  Never draws a decision, never reads a real
    /// clock.
    pub fn log_event(&mut self, kind: &str, detail: &str) {
        let at = if crate::clock::source() == crate::clock::Source::Unset {
            0
        } else {
            crate::clock::elapsed_ms()
        };
        let mut h = self.log_hash ^ mix64(at ^ (self.log_count << 32));
        h = hash_bytes(h, kind.as_bytes());
        h = hash_bytes(h, detail.as_bytes());
        self.log_hash = h;
        if let Some(text) = &mut self.log_text {
            text.push(format!("{:>8}ms #{:<5} {kind} {detail}", at, self.log_count));
        }
        self.log_count += 1;
    }

    pub fn log_hash(&self) -> u64 {
        self.log_hash
    }

    pub fn log_count(&self) -> u64 {
        self.log_count
    }
}
