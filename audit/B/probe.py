import os, signal, socket, struct, subprocess, sys, tempfile, time

BIN = os.environ.get("RESOLVED_BIN", "/tmp/wa-B/target/debug/resolved")


def free_port():
    s = socket.socket(socket.AF_INET, socket.SOCK_STREAM)
    s.bind(("127.0.0.1", 0))
    p = s.getsockname()[1]
    s.close()
    return p


class Server:
    def __init__(self, extra, env=None):
        self.port = free_port()
        self.mport = free_port()
        args = [BIN, "-i", f"127.0.0.1:{self.port}", "--metrics-address", f"127.0.0.1:{self.mport}"] + extra
        e = dict(os.environ)
        e["RUST_LOG"] = "debug"
        if env:
            e.update(env)
        self.log = open(f"/tmp/wa-B-explore/server-{self.port}.log", "w")
        self.p = subprocess.Popen(args, stdout=self.log, stderr=self.log, env=e)
        # wait for tcp
        for _ in range(100):
            try:
                c = socket.create_connection(("127.0.0.1", self.mport), timeout=0.2)
                c.close()
                break
            except OSError:
                time.sleep(0.05)
        time.sleep(0.2)

    def udp(self, data, timeout=2.0):
        s = socket.socket(socket.AF_INET, socket.SOCK_DGRAM)
        s.settimeout(timeout)
        s.sendto(data, ("127.0.0.1", self.port))
        try:
            r, _ = s.recvfrom(65535)
            return r
        except socket.timeout:
            return None
        finally:
            s.close()

    def tcp_conn(self):
        return socket.create_connection(("127.0.0.1", self.port), timeout=3)

    def alive(self):
        return self.p.poll() is None

    def usr1(self):
        self.p.send_signal(signal.SIGUSR1)

    def stop(self):
        if self.alive():
            self.p.kill()
        self.p.wait()


def name(n):
    out = b""
    for l in n.rstrip(".").split("."):
        if l:
            out += bytes([len(l)]) + l.encode()
    return out + b"\0"


def query(id, n, qtype=1, qclass=1, flags=0x0100):
    return struct.pack(">HHHHHH", id, flags, 1, 0, 0, 0) + name(n) + struct.pack(">HH", qtype, qclass)


def tcp_read_msg(c):
    def rd(n):
        b = b""
        while len(b) < n:
            x = c.recv(n - len(b))
            if not x:
                return b
            b += x
        return b
    l = rd(2)
    if len(l) < 2:
        return None
    (n,) = struct.unpack(">H", l)
    return rd(n)
