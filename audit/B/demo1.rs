//! C09 demo 1: one well-formed TCP message (16 KiB, far below the 64 KiB bound)
//! takes the whole server down.
//!
//! The message is a standard query for `www.example.com. IN A` that also carries
//! two additional records.  The first is of an unknown type, so its RDATA is
//! opaque; it holds a root label followed by ~8000 two-byte compression
//! pointers, each pointing at the one before it.  The second additional record's
//! owner name is a pointer to the last link of that chain.  Every pointer points
//! strictly backwards, so the message is legal and parses (to the root name) -
//! with a chain of 500 links the server answers it normally - but
//! `DomainName::deserialise` follows pointers by recursing, one stack frame per
//! pointer, and overflows the 2 MiB stack of the tokio worker thread.  Rust's
//! stack-overflow handler aborts the process (SIGABRT).
//!
//! Place in crates/resolved/tests/demo1.rs and run:
//!   cargo test --offline -p resolved --test demo1 -- --nocapture

use std::io::{Read, Write};
use std::net::{TcpListener, TcpStream, UdpSocket};
use std::path::PathBuf;
use std::process::{Child, Command, Stdio};
use std::time::{Duration, Instant};

fn free_port() -> u16 {
    loop {
        let tcp = TcpListener::bind("127.0.0.1:0").unwrap();
        let port = tcp.local_addr().unwrap().port();
        if UdpSocket::bind(("127.0.0.1", port)).is_ok() {
            return port;
        }
    }
}

fn temp_dir(tag: &str) -> PathBuf {
    let dir = std::env::temp_dir().join(format!("resolved-{tag}-{}", std::process::id()));
    let _ = std::fs::remove_dir_all(&dir);
    std::fs::create_dir_all(&dir).unwrap();
    dir
}

struct Server {
    child: Child,
    port: u16,
}

impl Server {
    fn start(extra: &[&str]) -> Self {
        let port = free_port();
        let metrics_port = free_port();
        let child = Command::new(env!("CARGO_BIN_EXE_resolved"))
            .arg("-i")
            .arg(format!("127.0.0.1:{port}"))
            .arg("--metrics-address")
            .arg(format!("127.0.0.1:{metrics_port}"))
            .args(extra)
            .env_remove("RUST_LOG")
            .stdout(Stdio::null())
            .stderr(Stdio::inherit())
            .spawn()
            .unwrap();
        let server = Server { child, port };
        let deadline = Instant::now() + Duration::from_secs(20);
        while server
            .udp(&query(0xfffe, "www.example.com.", 1, 0x0000), Duration::from_millis(200))
            .is_none()
        {
            assert!(Instant::now() < deadline, "server did not come up");
        }
        server
    }

    fn udp(&self, msg: &[u8], wait: Duration) -> Option<Vec<u8>> {
        let sock = UdpSocket::bind("127.0.0.1:0").unwrap();
        sock.set_read_timeout(Some(wait)).unwrap();
        sock.send_to(msg, ("127.0.0.1", self.port)).unwrap();
        let mut buf = [0u8; 4096];
        match sock.recv_from(&mut buf) {
            Ok((n, _)) => Some(buf[..n].to_vec()),
            Err(_) => None,
        }
    }
}

impl Drop for Server {
    fn drop(&mut self) {
        let _ = self.child.kill();
        let _ = self.child.wait();
    }
}

fn wire_name(name: &str) -> Vec<u8> {
    let mut out = Vec::new();
    for label in name.split('.').filter(|l| !l.is_empty()) {
        out.push(label.len() as u8);
        out.extend_from_slice(label.as_bytes());
    }
    out.push(0);
    out
}

fn query(id: u16, name: &str, qtype: u16, flags: u16) -> Vec<u8> {
    let mut msg = Vec::new();
    msg.extend_from_slice(&id.to_be_bytes());
    msg.extend_from_slice(&flags.to_be_bytes());
    msg.extend_from_slice(&[0, 1, 0, 0, 0, 0, 0, 0]);
    msg.extend_from_slice(&wire_name(name));
    msg.extend_from_slice(&qtype.to_be_bytes());
    msg.extend_from_slice(&1u16.to_be_bytes());
    msg
}

/// A standard query for `www.example.com. IN A` with two additional records:
/// an opaque one whose RDATA holds a backwards chain of `links` compression
/// pointers, and an A record whose owner name points at the end of the chain.
fn query_with_pointer_chain(id: u16, links: usize) -> Vec<u8> {
    let mut msg = Vec::new();
    msg.extend_from_slice(&id.to_be_bytes());
    msg.extend_from_slice(&[0x00, 0x00]); // standard query, no flags
    msg.extend_from_slice(&[0, 1, 0, 0, 0, 0, 0, 2]); // QD=1 AN=0 NS=0 AR=2
    msg.extend_from_slice(&wire_name("www.example.com."));
    msg.extend_from_slice(&[0, 1, 0, 1]); // A IN

    // additional record 1: ". TYPE65280 IN 0 <chain>"
    msg.push(0);
    msg.extend_from_slice(&65280u16.to_be_bytes());
    msg.extend_from_slice(&1u16.to_be_bytes());
    msg.extend_from_slice(&0u32.to_be_bytes());
    let rdata_offset = msg.len() + 2;
    let mut chain = vec![0u8]; // the root name, at `rdata_offset`
    let mut previous = rdata_offset;
    for _ in 0..links {
        let here = rdata_offset + chain.len();
        chain.extend_from_slice(&(0xC000u16 | u16::try_from(previous).unwrap()).to_be_bytes());
        previous = here;
    }
    assert!(previous < 0x4000, "pointers are 14 bits wide");
    msg.extend_from_slice(&u16::try_from(chain.len()).unwrap().to_be_bytes());
    msg.extend_from_slice(&chain);

    // additional record 2: "<pointer to the last link> A IN 0 1.2.3.4"
    msg.extend_from_slice(&(0xC000u16 | u16::try_from(previous).unwrap()).to_be_bytes());
    msg.extend_from_slice(&[0, 1, 0, 1, 0, 0, 0, 0, 0, 4, 1, 2, 3, 4]);
    msg
}

fn tcp_exchange(port: u16, msg: &[u8]) -> Option<Vec<u8>> {
    let mut stream = TcpStream::connect(("127.0.0.1", port)).ok()?;
    stream.set_read_timeout(Some(Duration::from_secs(5))).unwrap();
    stream
        .write_all(&u16::try_from(msg.len()).unwrap().to_be_bytes())
        .ok()?;
    stream.write_all(msg).ok()?;
    let mut len = [0u8; 2];
    stream.read_exact(&mut len).ok()?;
    let mut reply = vec![0u8; u16::from_be_bytes(len) as usize];
    stream.read_exact(&mut reply).ok()?;
    Some(reply)
}

#[test]
fn one_legal_tcp_message_must_not_take_the_server_down() {
    let dir = temp_dir("demo1");
    let zone = dir.join("example.zone");
    std::fs::write(
        &zone,
        "$ORIGIN example.com.\n\
         @ 300 IN SOA ns.example.com. admin.example.com. 1 3600 600 86400 300\n\
         www 300 IN A 10.0.0.1\n",
    )
    .unwrap();
    let mut server = Server::start(&["--authoritative-only", "-z", zone.to_str().unwrap()]);

    // control: the same message with a short chain is an ordinary query
    let short = query_with_pointer_chain(0x4141, 500);
    let reply = tcp_exchange(server.port, &short).expect("reply to the short-chain message");
    assert_eq!(&reply[0..2], &[0x41, 0x41]);
    assert_eq!(reply[2] & 0x80, 0x80, "QR");
    assert_eq!(reply[3] & 0x0f, 0, "NOERROR");

    // the same message with the longest chain 14-bit pointers allow
    let long = query_with_pointer_chain(0x4242, 8160);
    assert!(long.len() <= 65535);
    eprintln!("sending a {} byte TCP message", long.len());
    let reply = tcp_exchange(server.port, &long);

    std::thread::sleep(Duration::from_millis(500));
    let status = server.child.try_wait().unwrap();
    let after = server.udp(
        &query(0x4343, "www.example.com.", 1, 0x0000),
        Duration::from_secs(2),
    );
    let _ = std::fs::remove_dir_all(&dir);

    assert!(
        status.is_none(),
        "C09: the server process died after one legal TCP message: {status:?}; \
         reply to that message: {reply:?}; reply to the next UDP query: {after:?}"
    );
    assert!(after.is_some(), "C09: the server no longer answers");
    let reply = reply.expect("C09: exactly one reply to the long-chain message");
    assert_eq!(&reply[0..2], &[0x42, 0x42]);
}
