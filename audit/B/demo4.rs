//! C09 demo 4: only the first TCP message of a connection is answered.
//!
//! The property speaks of "every ... TCP message sent to the server" and asks
//! for exactly one reply, with the same ID, to each that is not a response.
//! `listen_tcp_task` reads one length-prefixed message per accepted connection,
//! replies, and drops the stream: a second query on the same connection (RFC
//! 1035 section 4.2.2 / RFC 7766 section 6.2.1 clients do this routinely) is
//! never answered - whether it is pipelined with the first or sent after the
//! first reply has arrived; the client sees EOF or a reset.
//!
//! Place in crates/resolved/tests/demo4.rs and run:
//!   cargo test --offline -p resolved --test demo4 -- --nocapture

use std::io::{Read, Write};
use std::net::{TcpListener, TcpStream, UdpSocket};
use std::path::PathBuf;
use std::process::{Child, Command, Stdio};
use std::time::{Duration, Instant};

fn free_port() -> u16 {
    loop {
        let tcp = TcpListener::bind("127.0.0.1:0").unwrap();
        let port = tcp.local_addr().unwrap().port();
        if UdpSocket::bind(("127.0.0.1", port)).is_ok() {
            return port;
        }
    }
}

fn temp_dir(tag: &str) -> PathBuf {
    let dir = std::env::temp_dir().join(format!("resolved-{tag}-{}", std::process::id()));
    let _ = std::fs::remove_dir_all(&dir);
    std::fs::create_dir_all(&dir).unwrap();
    dir
}

struct Server {
    child: Child,
    port: u16,
}

impl Server {
    fn start(extra: &[&str]) -> Self {
        let port = free_port();
        let metrics_port = free_port();
        let child = Command::new(env!("CARGO_BIN_EXE_resolved"))
            .arg("-i")
            .arg(format!("127.0.0.1:{port}"))
            .arg("--metrics-address")
            .arg(format!("127.0.0.1:{metrics_port}"))
            .args(extra)
            .env_remove("RUST_LOG")
            .stdout(Stdio::null())
            .stderr(Stdio::inherit())
            .spawn()
            .unwrap();
        let server = Server { child, port };
        let deadline = Instant::now() + Duration::from_secs(20);
        while server
            .udp(&query(0xfffe, "www.example.com.", 1, 0x0000), Duration::from_millis(200))
            .is_none()
        {
            assert!(Instant::now() < deadline, "server did not come up");
        }
        server
    }

    fn udp(&self, msg: &[u8], wait: Duration) -> Option<Vec<u8>> {
        let sock = UdpSocket::bind("127.0.0.1:0").unwrap();
        sock.set_read_timeout(Some(wait)).unwrap();
        sock.send_to(msg, ("127.0.0.1", self.port)).unwrap();
        let mut buf = [0u8; 4096];
        match sock.recv_from(&mut buf) {
            Ok((n, _)) => Some(buf[..n].to_vec()),
            Err(_) => None,
        }
    }
}

impl Drop for Server {
    fn drop(&mut self) {
        let _ = self.child.kill();
        let _ = self.child.wait();
    }
}

fn wire_name(name: &str) -> Vec<u8> {
    let mut out = Vec::new();
    for label in name.split('.').filter(|l| !l.is_empty()) {
        out.push(label.len() as u8);
        out.extend_from_slice(label.as_bytes());
    }
    out.push(0);
    out
}

fn query(id: u16, name: &str, qtype: u16, flags: u16) -> Vec<u8> {
    let mut msg = Vec::new();
    msg.extend_from_slice(&id.to_be_bytes());
    msg.extend_from_slice(&flags.to_be_bytes());
    msg.extend_from_slice(&[0, 1, 0, 0, 0, 0, 0, 0]);
    msg.extend_from_slice(&wire_name(name));
    msg.extend_from_slice(&qtype.to_be_bytes());
    msg.extend_from_slice(&1u16.to_be_bytes());
    msg
}

fn framed(msg: &[u8]) -> Vec<u8> {
    let mut out = u16::try_from(msg.len()).unwrap().to_be_bytes().to_vec();
    out.extend_from_slice(msg);
    out
}

fn read_message(stream: &mut TcpStream) -> Result<Vec<u8>, std::io::Error> {
    let mut len = [0u8; 2];
    stream.read_exact(&mut len)?;
    let mut reply = vec![0u8; u16::from_be_bytes(len) as usize];
    stream.read_exact(&mut reply)?;
    Ok(reply)
}

#[test]
fn every_tcp_message_on_a_connection_is_answered() {
    let dir = temp_dir("demo4");
    let zone = dir.join("example.zone");
    std::fs::write(
        &zone,
        "$ORIGIN example.com.\n\
         @ 300 IN SOA ns.example.com. admin.example.com. 1 3600 600 86400 300\n\
         www 300 IN A 10.0.0.1\n\
         ftp 300 IN A 10.0.0.2\n",
    )
    .unwrap();
    let server = Server::start(&["--authoritative-only", "-z", zone.to_str().unwrap()]);

    // one after the other: the second is sent once the first reply is in
    let mut stream = TcpStream::connect(("127.0.0.1", server.port)).unwrap();
    stream.set_read_timeout(Some(Duration::from_secs(3))).unwrap();
    stream
        .write_all(&framed(&query(0x1111, "www.example.com.", 1, 0)))
        .unwrap();
    let first = read_message(&mut stream).expect("reply to the first message");
    assert_eq!(&first[0..2], &[0x11, 0x11]);
    let second = stream
        .write_all(&framed(&query(0x2222, "ftp.example.com.", 1, 0)))
        .and_then(|()| read_message(&mut stream));

    // pipelined: both messages in one segment
    let mut stream = TcpStream::connect(("127.0.0.1", server.port)).unwrap();
    stream.set_read_timeout(Some(Duration::from_secs(3))).unwrap();
    let mut both = framed(&query(0x3333, "www.example.com.", 1, 0));
    both.extend_from_slice(&framed(&query(0x4444, "ftp.example.com.", 1, 0)));
    stream.write_all(&both).unwrap();
    let first = read_message(&mut stream).expect("reply to the first pipelined message");
    assert_eq!(&first[0..2], &[0x33, 0x33]);
    let pipelined = read_message(&mut stream);

    let _ = std::fs::remove_dir_all(&dir);

    eprintln!("second message, sent after the first reply: {second:?}");
    eprintln!("second message, pipelined with the first:    {pipelined:?}");
    let second = second.expect("C09: no reply to the second TCP message of a connection");
    assert_eq!(&second[0..2], &[0x22, 0x22]);
    let pipelined = pipelined.expect("C09: no reply to the second (pipelined) TCP message");
    assert_eq!(&pipelined[0..2], &[0x44, 0x44]);
}
