//! C09 demo 3: a well-formed standard query that gets NO reply at all, over UDP
//! and over TCP, although the property promises "exactly one reply with the same
//! ID and the response flag set" to everything that is not a response and is
//! long enough to hold an ID.
//!
//! The zone file parser puts no bound on the size of a record's RDATA, so the
//! server happily loads a zone with a TXT record of 70000 octets.  A query for
//! it resolves fine, but `Message::to_octets` refuses the reply (RDLENGTH does
//! not fit 16 bits), and both listeners handle that error by logging "could not
//! serialise message" and sending nothing - no SERVFAIL, no truncated reply.
//! (The same path is taken by a name with more than 65535 records.)
//!
//! Place in crates/resolved/tests/demo3.rs and run:
//!   cargo test --offline -p resolved --test demo3 -- --nocapture

use std::io::{Read, Write};
use std::net::{TcpListener, TcpStream, UdpSocket};
use std::path::PathBuf;
use std::process::{Child, Command, Stdio};
use std::time::{Duration, Instant};

fn free_port() -> u16 {
    loop {
        let tcp = TcpListener::bind("127.0.0.1:0").unwrap();
        let port = tcp.local_addr().unwrap().port();
        if UdpSocket::bind(("127.0.0.1", port)).is_ok() {
            return port;
        }
    }
}

fn temp_dir(tag: &str) -> PathBuf {
    let dir = std::env::temp_dir().join(format!("resolved-{tag}-{}", std::process::id()));
    let _ = std::fs::remove_dir_all(&dir);
    std::fs::create_dir_all(&dir).unwrap();
    dir
}

struct Server {
    child: Child,
    port: u16,
}

impl Server {
    fn start(extra: &[&str]) -> Self {
        let port = free_port();
        let metrics_port = free_port();
        let child = Command::new(env!("CARGO_BIN_EXE_resolved"))
            .arg("-i")
            .arg(format!("127.0.0.1:{port}"))
            .arg("--metrics-address")
            .arg(format!("127.0.0.1:{metrics_port}"))
            .args(extra)
            .env_remove("RUST_LOG")
            .stdout(Stdio::null())
            .stderr(Stdio::inherit())
            .spawn()
            .unwrap();
        let server = Server { child, port };
        let deadline = Instant::now() + Duration::from_secs(20);
        while server
            .udp(&query(0xfffe, "www.example.com.", 1, 0x0000), Duration::from_millis(200))
            .is_none()
        {
            assert!(Instant::now() < deadline, "server did not come up");
        }
        server
    }

    fn udp(&self, msg: &[u8], wait: Duration) -> Option<Vec<u8>> {
        let sock = UdpSocket::bind("127.0.0.1:0").unwrap();
        sock.set_read_timeout(Some(wait)).unwrap();
        sock.send_to(msg, ("127.0.0.1", self.port)).unwrap();
        let mut buf = [0u8; 4096];
        match sock.recv_from(&mut buf) {
            Ok((n, _)) => Some(buf[..n].to_vec()),
            Err(_) => None,
        }
    }

    fn tcp(&self, msg: &[u8]) -> Option<Vec<u8>> {
        let mut stream = TcpStream::connect(("127.0.0.1", self.port)).ok()?;
        stream.set_read_timeout(Some(Duration::from_secs(3))).unwrap();
        stream
            .write_all(&u16::try_from(msg.len()).unwrap().to_be_bytes())
            .ok()?;
        stream.write_all(msg).ok()?;
        let mut len = [0u8; 2];
        stream.read_exact(&mut len).ok()?;
        let mut reply = vec![0u8; u16::from_be_bytes(len) as usize];
        stream.read_exact(&mut reply).ok()?;
        Some(reply)
    }
}

impl Drop for Server {
    fn drop(&mut self) {
        let _ = self.child.kill();
        let _ = self.child.wait();
    }
}

fn wire_name(name: &str) -> Vec<u8> {
    let mut out = Vec::new();
    for label in name.split('.').filter(|l| !l.is_empty()) {
        out.push(label.len() as u8);
        out.extend_from_slice(label.as_bytes());
    }
    out.push(0);
    out
}

fn query(id: u16, name: &str, qtype: u16, flags: u16) -> Vec<u8> {
    let mut msg = Vec::new();
    msg.extend_from_slice(&id.to_be_bytes());
    msg.extend_from_slice(&flags.to_be_bytes());
    msg.extend_from_slice(&[0, 1, 0, 0, 0, 0, 0, 0]);
    msg.extend_from_slice(&wire_name(name));
    msg.extend_from_slice(&qtype.to_be_bytes());
    msg.extend_from_slice(&1u16.to_be_bytes());
    msg
}

const TXT: u16 = 16;

#[test]
fn every_query_gets_exactly_one_reply() {
    let dir = temp_dir("demo3");
    let zone = dir.join("example.zone");
    std::fs::write(
        &zone,
        format!(
            "$ORIGIN example.com.\n\
             @ 300 IN SOA ns.example.com. admin.example.com. 1 3600 600 86400 300\n\
             www 300 IN A 10.0.0.1\n\
             small 300 IN TXT \"{}\"\n\
             big 300 IN TXT \"{}\"\n",
            "x".repeat(700),
            "x".repeat(70000)
        ),
    )
    .unwrap();
    let server = Server::start(&["--authoritative-only", "-z", zone.to_str().unwrap()]);

    // control: an answer that does not fit a datagram is cut short with TC set,
    // and arrives whole over TCP
    let reply = server
        .udp(&query(0x0101, "small.example.com.", TXT, 0), Duration::from_secs(2))
        .expect("UDP reply for the 700 octet record");
    assert_eq!(reply.len(), 512);
    assert_eq!(reply[2] & 0x02, 0x02, "TC");
    let reply = server
        .tcp(&query(0x0102, "small.example.com.", TXT, 0))
        .expect("TCP reply for the 700 octet record");
    assert!(reply.len() > 700);

    let udp_reply = server.udp(&query(0x0201, "big.example.com.", TXT, 0), Duration::from_secs(2));
    let tcp_reply = server.tcp(&query(0x0202, "big.example.com.", TXT, 0));
    let alive = server
        .udp(&query(0x0203, "www.example.com.", 1, 0), Duration::from_secs(2))
        .is_some();
    let _ = std::fs::remove_dir_all(&dir);

    assert!(alive, "the server still answers other questions");
    assert!(
        udp_reply.is_some() && tcp_reply.is_some(),
        "C09: no reply to a well-formed standard query: over UDP {:?}, over TCP {:?}",
        udp_reply.map(|r| r.len()),
        tcp_reply.map(|r| r.len())
    );
}
