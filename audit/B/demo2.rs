//! C19 demo 2: "the server keeps answering throughout [a reload]" does not hold
//! when a forwarded query is in flight: the reload then stops ALL answering -
//! including for names answered from local zones - until that query is over.
//!
//! Every request takes a read lock on the zones for its whole life, upstream
//! waits included (main.rs `resolve_and_build_response`).  On SIGUSR1
//! `reload_task` loads the files and then asks for the write lock.  tokio's
//! `RwLock` is fair / write-preferring: while the writer waits for the in-flight
//! request to finish, every new reader queues up behind the writer.  So one
//! client asking for one name the forwarder is slow to answer (here: a forwarder
//! that accepts UDP and TCP but never replies, 5 s + 5 s of timeouts) makes the
//! reload freeze the whole server for ~10 s; with aliases to follow the in-flight
//! request can last up to the 60 s resolver timeout.
//!
//! Place in crates/resolved/tests/demo2.rs and run:
//!   cargo test --offline -p resolved --test demo2 -- --nocapture

use std::net::{TcpListener, UdpSocket};
use std::path::PathBuf;
use std::process::{Child, Command, Stdio};
use std::time::{Duration, Instant};

fn free_port() -> u16 {
    loop {
        let tcp = TcpListener::bind("127.0.0.1:0").unwrap();
        let port = tcp.local_addr().unwrap().port();
        if UdpSocket::bind(("127.0.0.1", port)).is_ok() {
            return port;
        }
    }
}

fn temp_dir(tag: &str) -> PathBuf {
    let dir = std::env::temp_dir().join(format!("resolved-{tag}-{}", std::process::id()));
    let _ = std::fs::remove_dir_all(&dir);
    std::fs::create_dir_all(&dir).unwrap();
    dir
}

struct Server {
    child: Child,
    port: u16,
}

impl Server {
    fn start(extra: &[&str]) -> Self {
        let port = free_port();
        let metrics_port = free_port();
        let child = Command::new(env!("CARGO_BIN_EXE_resolved"))
            .arg("-i")
            .arg(format!("127.0.0.1:{port}"))
            .arg("--metrics-address")
            .arg(format!("127.0.0.1:{metrics_port}"))
            .args(extra)
            .env_remove("RUST_LOG")
            .stdout(Stdio::null())
            .stderr(Stdio::inherit())
            .spawn()
            .unwrap();
        let server = Server { child, port };
        let deadline = Instant::now() + Duration::from_secs(20);
        while server
            .udp(&query(0xfffe, "www.example.com.", 1, 0x0100), Duration::from_millis(200))
            .is_none()
        {
            assert!(Instant::now() < deadline, "server did not come up");
        }
        server
    }

    fn udp(&self, msg: &[u8], wait: Duration) -> Option<Vec<u8>> {
        let sock = UdpSocket::bind("127.0.0.1:0").unwrap();
        sock.set_read_timeout(Some(wait)).unwrap();
        sock.send_to(msg, ("127.0.0.1", self.port)).unwrap();
        let mut buf = [0u8; 4096];
        match sock.recv_from(&mut buf) {
            Ok((n, _)) => Some(buf[..n].to_vec()),
            Err(_) => None,
        }
    }

    fn sigusr1(&self) {
        let ok = Command::new("kill")
            .arg("-USR1")
            .arg(self.child.id().to_string())
            .status()
            .unwrap()
            .success();
        assert!(ok, "kill -USR1");
    }
}

impl Drop for Server {
    fn drop(&mut self) {
        let _ = self.child.kill();
        let _ = self.child.wait();
    }
}

fn wire_name(name: &str) -> Vec<u8> {
    let mut out = Vec::new();
    for label in name.split('.').filter(|l| !l.is_empty()) {
        out.push(label.len() as u8);
        out.extend_from_slice(label.as_bytes());
    }
    out.push(0);
    out
}

fn query(id: u16, name: &str, qtype: u16, flags: u16) -> Vec<u8> {
    let mut msg = Vec::new();
    msg.extend_from_slice(&id.to_be_bytes());
    msg.extend_from_slice(&flags.to_be_bytes());
    msg.extend_from_slice(&[0, 1, 0, 0, 0, 0, 0, 0]);
    msg.extend_from_slice(&wire_name(name));
    msg.extend_from_slice(&qtype.to_be_bytes());
    msg.extend_from_slice(&1u16.to_be_bytes());
    msg
}

fn zone_text(address: &str) -> String {
    format!(
        "$ORIGIN example.com.\n\
         @ 300 IN SOA ns.example.com. admin.example.com. 1 3600 600 86400 300\n\
         www 300 IN A {address}\n"
    )
}

/// Does the reply contain these octets (an IPv4 address) anywhere?
fn contains(haystack: &[u8], needle: &[u8]) -> bool {
    haystack.windows(needle.len()).any(|w| w == needle)
}

#[test]
fn the_server_keeps_answering_local_names_during_a_reload() {
    // an upstream that takes every query and never answers, on UDP and on TCP
    let upstream_udp = UdpSocket::bind("127.0.0.1:0").unwrap();
    let upstream_port = upstream_udp.local_addr().unwrap().port();
    let upstream_tcp = TcpListener::bind(("127.0.0.1", upstream_port)).unwrap();

    let dir = temp_dir("demo2");
    let zone = dir.join("example.zone");
    std::fs::write(&zone, zone_text("10.0.0.1")).unwrap();
    let server = Server::start(&[
        "-f",
        &format!("127.0.0.1:{upstream_port}"),
        "-z",
        zone.to_str().unwrap(),
    ]);

    // one client asks (RD=1) for a name only the forwarder could answer; it does
    // not wait for the reply
    let slow_client = UdpSocket::bind("127.0.0.1:0").unwrap();
    slow_client
        .send_to(&query(0x7777, "slow.test.", 1, 0x0100), ("127.0.0.1", server.port))
        .unwrap();
    std::thread::sleep(Duration::from_millis(300));

    // control: with that query in flight, local names are answered at once
    let start = Instant::now();
    let reply = server
        .udp(&query(0x0001, "www.example.com.", 1, 0x0100), Duration::from_secs(15))
        .expect("reply before the reload");
    let before = start.elapsed();
    assert!(contains(&reply, &[10, 0, 0, 1]), "old address before the reload");
    assert!(before < Duration::from_secs(1), "control took {before:?}");

    // edit the zone file and reload
    std::fs::write(&zone, zone_text("10.0.0.2")).unwrap();
    server.sigusr1();
    std::thread::sleep(Duration::from_millis(300));

    // a query for a local name, issued while the reload is in progress
    let start = Instant::now();
    let reply = server.udp(&query(0x0002, "www.example.com.", 1, 0x0100), Duration::from_secs(30));
    let during = start.elapsed();
    eprintln!(
        "local query before the reload: answered in {before:?}; during the reload: {} after {during:?}",
        if reply.is_some() { "answered" } else { "NOT answered" }
    );

    drop(upstream_tcp);
    let _ = std::fs::remove_dir_all(&dir);

    let reply = reply.expect("C19: a reply during the reload");
    assert!(
        contains(&reply, &[10, 0, 0, 1]) ^ contains(&reply, &[10, 0, 0, 2]),
        "entirely old or entirely new"
    );
    assert!(
        during < Duration::from_secs(3),
        "C19: the server did not keep answering during the reload: a query for a name in a \
         local zone, sent 0.3 s after SIGUSR1, got its answer only after {during:?} \
         (the same query took {before:?} just before the signal)"
    );
}
