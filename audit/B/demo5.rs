//! C09 demo 5: the server replies to messages flagged as responses.
//!
//! "It sends no reply to a message flagged as a response or too short to hold an
//! ID."  `handle_raw_message` only looks at the QR flag of messages that parse;
//! when parsing fails it sends a FORMERR to whatever ID the first two octets
//! give, without looking at the QR bit that sits right behind them.  So any
//! datagram (or TCP message) with QR=1 that is truncated or otherwise malformed
//! is answered - and since the FORMERR reply is itself a valid response this is
//! harmless between two copies of resolved, but it is exactly the reflection the
//! clause exists to rule out (the reply goes to the - possibly spoofed - source
//! of a "response"), and it is not what the property says.
//!
//! Place in crates/resolved/tests/demo5.rs and run:
//!   cargo test --offline -p resolved --test demo5 -- --nocapture

use std::io::{Read, Write};
use std::net::{Shutdown, TcpListener, TcpStream, UdpSocket};
use std::path::PathBuf;
use std::process::{Child, Command, Stdio};
use std::time::{Duration, Instant};

fn free_port() -> u16 {
    loop {
        let tcp = TcpListener::bind("127.0.0.1:0").unwrap();
        let port = tcp.local_addr().unwrap().port();
        if UdpSocket::bind(("127.0.0.1", port)).is_ok() {
            return port;
        }
    }
}

fn temp_dir(tag: &str) -> PathBuf {
    let dir = std::env::temp_dir().join(format!("resolved-{tag}-{}", std::process::id()));
    let _ = std::fs::remove_dir_all(&dir);
    std::fs::create_dir_all(&dir).unwrap();
    dir
}

struct Server {
    child: Child,
    port: u16,
}

impl Server {
    fn start(extra: &[&str]) -> Self {
        let port = free_port();
        let metrics_port = free_port();
        let child = Command::new(env!("CARGO_BIN_EXE_resolved"))
            .arg("-i")
            .arg(format!("127.0.0.1:{port}"))
            .arg("--metrics-address")
            .arg(format!("127.0.0.1:{metrics_port}"))
            .args(extra)
            .env_remove("RUST_LOG")
            .stdout(Stdio::null())
            .stderr(Stdio::inherit())
            .spawn()
            .unwrap();
        let server = Server { child, port };
        let deadline = Instant::now() + Duration::from_secs(20);
        while server
            .udp(&query(0xfffe, "www.example.com.", 1, 0x0000), Duration::from_millis(200))
            .is_none()
        {
            assert!(Instant::now() < deadline, "server did not come up");
        }
        server
    }

    fn udp(&self, msg: &[u8], wait: Duration) -> Option<Vec<u8>> {
        let sock = UdpSocket::bind("127.0.0.1:0").unwrap();
        sock.set_read_timeout(Some(wait)).unwrap();
        sock.send_to(msg, ("127.0.0.1", self.port)).unwrap();
        let mut buf = [0u8; 4096];
        match sock.recv_from(&mut buf) {
            Ok((n, _)) => Some(buf[..n].to_vec()),
            Err(_) => None,
        }
    }
}

impl Drop for Server {
    fn drop(&mut self) {
        let _ = self.child.kill();
        let _ = self.child.wait();
    }
}

fn wire_name(name: &str) -> Vec<u8> {
    let mut out = Vec::new();
    for label in name.split('.').filter(|l| !l.is_empty()) {
        out.push(label.len() as u8);
        out.extend_from_slice(label.as_bytes());
    }
    out.push(0);
    out
}

fn query(id: u16, name: &str, qtype: u16, flags: u16) -> Vec<u8> {
    let mut msg = Vec::new();
    msg.extend_from_slice(&id.to_be_bytes());
    msg.extend_from_slice(&flags.to_be_bytes());
    msg.extend_from_slice(&[0, 1, 0, 0, 0, 0, 0, 0]);
    msg.extend_from_slice(&wire_name(name));
    msg.extend_from_slice(&qtype.to_be_bytes());
    msg.extend_from_slice(&1u16.to_be_bytes());
    msg
}

#[test]
fn no_reply_to_anything_flagged_as_a_response() {
    let dir = temp_dir("demo5");
    let zone = dir.join("example.zone");
    std::fs::write(
        &zone,
        "$ORIGIN example.com.\n\
         @ 300 IN SOA ns.example.com. admin.example.com. 1 3600 600 86400 300\n\
         www 300 IN A 10.0.0.1\n",
    )
    .unwrap();
    let server = Server::start(&["--authoritative-only", "-z", zone.to_str().unwrap()]);

    // control: a complete message with QR=1 is ignored
    let whole = query(0x1001, "www.example.com.", 1, 0x8000);
    assert_eq!(server.udp(&whole, Duration::from_secs(1)), None);

    // the same response with its last octet missing
    let cut = &whole[..whole.len() - 1];
    let udp_cut = server.udp(cut, Duration::from_secs(1));
    // a response that is just an ID and the flags
    let udp_header = server.udp(&[0x10, 0x02, 0x80, 0x00], Duration::from_secs(1));
    // over TCP: the prefix announces the whole response, the client sends all but
    // the last octet and closes its sending side
    let mut stream = TcpStream::connect(("127.0.0.1", server.port)).unwrap();
    stream.set_read_timeout(Some(Duration::from_secs(1))).unwrap();
    stream
        .write_all(&u16::try_from(whole.len()).unwrap().to_be_bytes())
        .unwrap();
    stream.write_all(cut).unwrap();
    stream.shutdown(Shutdown::Write).unwrap();
    let mut tcp_cut = Vec::new();
    let _ = stream.read_to_end(&mut tcp_cut);

    let _ = std::fs::remove_dir_all(&dir);

    eprintln!("UDP, QR=1, last octet missing: {udp_cut:02x?}");
    eprintln!("UDP, QR=1, ID and flags only:  {udp_header:02x?}");
    eprintln!("TCP, QR=1, last octet missing: {tcp_cut:02x?}");
    assert!(
        udp_cut.is_none() && udp_header.is_none() && tcp_cut.is_empty(),
        "C09: the server replied to a message flagged as a response"
    );
}
