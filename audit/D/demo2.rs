//! C08 ("never panics ... each resolution finishes with an answer or an
//! error"): one TCP reply from an upstream nameserver kills the whole server.
//!
//! The reply is a syntactically legal DNS message whose last owner name is a
//! compression pointer to a compression pointer to a ... (about 8170 links,
//! each pointing strictly backwards, so every link passes the "pointer must be
//! to an earlier position" check).  `DomainName::deserialise` follows each
//! link with a recursive call, the tokio worker thread's 2 MiB stack runs out,
//! and the process is aborted ("has overflowed its stack", SIGABRT) - no
//! answer, no error, and every other client of the server loses its resolver
//! too.
//!
//! This starts the built server binary.  With the default (dev) profile, which
//! `cargo test`, `cargo build` and `cargo run` use, the server dies.  With
//! `--release` the same reply is survived, narrowly: the parse then needs
//! ~1.7 MiB of the worker thread's 2 MiB stack (measured: it overflows a
//! 1664 KiB stack and fits a 1728 KiB one).
//!
//! Put this file in crates/resolved/tests/ and run
//!
//!     cargo test --offline -p resolved --test demo2 -- --nocapture

use std::io::{Read, Write};
use std::net::{Ipv4Addr, SocketAddr, TcpListener, TcpStream, UdpSocket};
use std::process::{Child, Command, Stdio};
use std::time::{Duration, Instant};

use dns_types::protocol::types::*;

/// The name the upstream nameserver answers with the pointer chain.
const HOSTILE_NAME: &str = "hostile.";

/// `c0.` is an alias of `c1.`, ... `c29.` is an alias of `hostile.`; the
/// upstream hands these out one per reply, so the resolver is 31 questions
/// deep when the pointer chain arrives.
const ALIASES: usize = 30;

/// A reply to the question in `request`, whose second answer record is owned
/// by a name made of ~8170 chained compression pointers.  All of it is
/// well-formed: counts, lengths and pointers (each one points to an earlier
/// offset) are right, and the name it finally spells is just the question
/// name.
fn chain_message(request: &[u8]) -> Vec<u8> {
    let mut m = Vec::new();
    m.extend_from_slice(&request[..2]); // ID
    m.extend_from_slice(&[0x80, 0x00]); // QR, NOERROR
    m.extend_from_slice(&[0, 1, 0, 2, 0, 0, 0, 0]); // 1 question, 2 answers
    m.extend_from_slice(&request[12..]); // the question, as asked (name at offset 12)
    // answer 1: <qname> IN NULL, whose opaque RDATA holds the pointer chain
    m.extend_from_slice(&[0xC0, 12, 0, 10, 0, 1, 0, 0, 0, 0]);
    let chain_start = m.len() + 2;
    let links = (0x3fff - chain_start) / 2;
    m.extend_from_slice(&u16::try_from(2 * links).unwrap().to_be_bytes());
    for k in 0..links {
        let target = if k == 0 { 12 } else { chain_start + 2 * (k - 1) };
        m.push(0xC0 | u8::try_from(target >> 8).unwrap());
        m.push(u8::try_from(target & 0xff).unwrap());
    }
    // answer 2: <pointer to the last link> IN A 1.2.3.4
    let last = chain_start + 2 * (links - 1);
    assert!(last <= 0x3fff);
    m.push(0xC0 | u8::try_from(last >> 8).unwrap());
    m.push(u8::try_from(last & 0xff).unwrap());
    m.extend_from_slice(&[0, 1, 0, 1, 0, 0, 0, 60, 0, 4, 1, 2, 3, 4]);
    m
}

fn domain(s: &str) -> DomainName {
    DomainName::from_dotted_string(s).unwrap()
}

/// The upstream nameserver.  Over UDP it answers `cN.` with an alias to the
/// next name, `hostile.` with "truncated, use TCP", and every other question
/// with `<qname> A 127.0.0.9`.  Over TCP it sends the pointer-chain reply.
fn start_upstream(tcp: TcpListener, udp: UdpSocket) {
    std::thread::spawn(move || {
        let mut buf = [0u8; 512];
        loop {
            let Ok((n, peer)) = udp.recv_from(&mut buf) else {
                continue;
            };
            let Ok(request) = Message::from_octets(&buf[..n]) else {
                continue;
            };
            let qname = request.questions[0].name.clone();
            let mut response = request.make_response();
            response.header.is_authoritative = true;
            let alias = (0..ALIASES).find(|i| qname == domain(&format!("c{i}.")));
            if qname == domain(HOSTILE_NAME) {
                response.header.is_truncated = true;
                let mut bytes = response.to_octets().unwrap().to_vec();
                bytes[2] |= 0b0000_0010;
                let _ = udp.send_to(&bytes, peer);
                continue;
            } else if let Some(i) = alias {
                let target = if i + 1 == ALIASES {
                    domain(HOSTILE_NAME)
                } else {
                    domain(&format!("c{}.", i + 1))
                };
                response.answers.push(ResourceRecord {
                    name: qname,
                    rtype_with_data: RecordTypeWithData::CNAME { cname: target },
                    rclass: RecordClass::IN,
                    ttl: 60,
                });
            } else {
                response.answers.push(ResourceRecord {
                    name: qname,
                    rtype_with_data: RecordTypeWithData::A {
                        address: Ipv4Addr::new(127, 0, 0, 9),
                    },
                    rclass: RecordClass::IN,
                    ttl: 60,
                });
            }
            let _ = udp.send_to(&response.to_octets().unwrap(), peer);
        }
    });
    std::thread::spawn(move || {
        for stream in tcp.incoming() {
            let Ok(mut stream) = stream else { continue };
            let mut len = [0u8; 2];
            if stream.read_exact(&mut len).is_err() {
                continue;
            }
            let mut request = vec![0u8; usize::from(u16::from_be_bytes(len))];
            if stream.read_exact(&mut request).is_err() {
                continue;
            }
            let reply = chain_message(&request);
            let _ = stream.write_all(&u16::try_from(reply.len()).unwrap().to_be_bytes());
            let _ = stream.write_all(&reply);
            let _ = stream.flush();
            // keep the connection open for a moment so that the reply is read in full
            std::thread::sleep(Duration::from_millis(500));
        }
    });
}

fn free_port() -> u16 {
    TcpListener::bind("127.0.0.1:0")
        .unwrap()
        .local_addr()
        .unwrap()
        .port()
}

struct Server(Child);
impl Drop for Server {
    fn drop(&mut self) {
        let _ = self.0.kill();
        let _ = self.0.wait();
    }
}

/// Ask the server under test over TCP.
fn ask(server: SocketAddr, name: &str, wait: Duration) -> Option<Message> {
    let mut request = Message::from_question(
        0x4242,
        Question {
            name: domain(name),
            qtype: QueryType::Record(RecordType::A),
            qclass: QueryClass::Record(RecordClass::IN),
        },
    );
    request.header.recursion_desired = true;
    let bytes = request.to_octets().unwrap();

    let mut stream = TcpStream::connect_timeout(&server, wait).ok()?;
    stream.set_read_timeout(Some(wait)).unwrap();
    stream
        .write_all(&u16::try_from(bytes.len()).unwrap().to_be_bytes())
        .ok()?;
    stream.write_all(&bytes).ok()?;
    let mut len = [0u8; 2];
    stream.read_exact(&mut len).ok()?;
    let mut response = vec![0u8; usize::from(u16::from_be_bytes(len))];
    stream.read_exact(&mut response).ok()?;
    Message::from_octets(&response).ok()
}

fn run(first_name: &str) {
    // the upstream nameserver: same port for UDP and TCP
    let tcp = TcpListener::bind("127.0.0.1:0").unwrap();
    let upstream_port = tcp.local_addr().unwrap().port();
    let udp = UdpSocket::bind(("127.0.0.1", upstream_port)).unwrap();
    start_upstream(tcp, udp);

    // root hints naming it
    let dir = std::env::temp_dir().join(format!(
        "resolved-demo2-{}-{upstream_port}",
        std::process::id()
    ));
    std::fs::create_dir_all(&dir).unwrap();
    let hints = dir.join("root.hints");
    std::fs::write(
        &hints,
        ". 3600 IN NS ns.upstream.test.\nns.upstream.test. 3600 IN A 127.0.0.1\n",
    )
    .unwrap();

    // the server under test, as a recursive resolver
    let listen: SocketAddr = format!("127.0.0.1:{}", free_port()).parse().unwrap();
    let mut server = Server(
        Command::new(env!("CARGO_BIN_EXE_resolved"))
            .arg("--address")
            .arg(listen.to_string())
            .arg("--metrics-address")
            .arg(format!("127.0.0.1:{}", free_port()))
            .arg("--protocol-mode")
            .arg("only-v4")
            .arg("--upstream-dns-port")
            .arg(upstream_port.to_string())
            .arg("--zone-file")
            .arg(&hints)
            .stdout(Stdio::null())
            .stderr(Stdio::inherit())
            .spawn()
            .unwrap(),
    );

    // control: it is up, and resolves through the fake upstream
    let start = Instant::now();
    let control = loop {
        if let Some(response) = ask(listen, "fine.test.", Duration::from_millis(500)) {
            break response;
        }
        assert!(
            start.elapsed() < Duration::from_secs(20),
            "server never came up"
        );
        std::thread::sleep(Duration::from_millis(100));
    };
    assert_eq!(Rcode::NoError, control.header.rcode);
    assert_eq!(1, control.answers.len(), "control: {control:?}");
    assert!(server.0.try_wait().unwrap().is_none());

    // the hostile exchange: UDP says "truncated", TCP sends the pointer chain
    let response = ask(listen, first_name, Duration::from_secs(15));
    std::thread::sleep(Duration::from_millis(500));
    let status = server.0.try_wait().unwrap();
    let _ = std::fs::remove_dir_all(&dir);

    assert!(
        status.is_none(),
        "the server process died while handling an upstream reply: {status:?} (reply to the client: {response:?})"
    );
    // (either outcome is fine: the chain spells the question name, so `A
    // 1.2.3.4` is a legitimate answer; discarding the reply and reporting
    // failure is too)
    let response = response.expect("no answer and no error within 15 s");
    println!(
        "reply to the client: {:?}, {} answer records",
        response.header.rcode,
        response.answers.len()
    );

    // and it still serves other clients
    let after = ask(listen, "other.test.", Duration::from_secs(5));
    assert!(after.is_some(), "server no longer answers");
}

/// The client asks for the hostile name itself.
#[test]
fn one_upstream_tcp_reply_must_not_kill_the_server() {
    run(HOSTILE_NAME);
}

/// The client asks for a name which is 30 aliases away from the hostile name,
/// so that the reply is parsed with the resolver's own recursion on the stack.
#[test]
fn one_upstream_tcp_reply_at_the_end_of_an_alias_chain_must_not_kill_the_server() {
    run("c0.");
}
