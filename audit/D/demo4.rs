//! C18: under only-v6 the resolver talks IPv4 when an upstream reply (or a
//! hints / zone file) gives a nameserver an IPv4-mapped IPv6 address
//! (`::ffff:a.b.c.d`) in an AAAA record.
//!
//! `resolve_hostname_to_ip` turns any AAAA record into `IpAddr::V6` and
//! `query_nameserver` connects to it.  The operating system maps a connect to
//! `[::ffff:127.0.0.3]:port` onto IPv4: the packets go out as IPv4, to the
//! IPv4 host 127.0.0.3, which here listens on an IPv4-only socket and sees an
//! IPv4 peer.  ("only-v6 ... e.g. this is an IPv6-only network ... rejecting a
//! nameserver if it is only available over IPv4", util/types.rs.)
//!
//! Put this file in crates/resolved/tests/ and run
//!
//!     cargo test --offline -p resolved --test demo4 -- --nocapture

#![allow(dead_code, unused_imports)]
use std::net::{IpAddr, Ipv4Addr, Ipv6Addr, SocketAddr};
use std::sync::{Arc, Mutex};
use std::time::{Duration, Instant};

use tokio::io::{AsyncReadExt, AsyncWriteExt};
use tokio::net::{TcpListener, UdpSocket};

use dns_resolver::cache::SharedCache;
use dns_resolver::resolve;
use dns_resolver::util::types::*;
use dns_types::protocol::types::*;
use dns_types::zones::types::*;

#[derive(Debug, Clone, Copy, PartialEq, Eq)]
pub enum Transport {
    Udp,
    Tcp,
}

pub enum Reply {
    Msg(Message),
    Raw(Vec<u8>),
    Silence,
}

pub type Log = Arc<Mutex<Vec<(IpAddr, Transport, Question)>>>;
pub type Handler = Arc<dyn Fn(&Message, Transport) -> Reply + Send + Sync>;

pub fn domain(s: &str) -> DomainName {
    DomainName::from_dotted_string(s).unwrap()
}
pub fn rr(name: &str, ttl: u32, data: RecordTypeWithData) -> ResourceRecord {
    ResourceRecord {
        name: domain(name),
        rtype_with_data: data,
        rclass: RecordClass::IN,
        ttl,
    }
}
pub fn a(name: &str, ip: [u8; 4]) -> ResourceRecord {
    rr(
        name,
        300,
        RecordTypeWithData::A {
            address: Ipv4Addr::from(ip),
        },
    )
}
pub fn aaaa(name: &str, ip: Ipv6Addr) -> ResourceRecord {
    rr(name, 300, RecordTypeWithData::AAAA { address: ip })
}
pub fn ns(name: &str, host: &str) -> ResourceRecord {
    rr(
        name,
        300,
        RecordTypeWithData::NS {
            nsdname: domain(host),
        },
    )
}
pub fn cname(name: &str, target: &str) -> ResourceRecord {
    rr(
        name,
        300,
        RecordTypeWithData::CNAME {
            cname: domain(target),
        },
    )
}
pub fn q(name: &str, rtype: RecordType) -> Question {
    Question {
        name: domain(name),
        qtype: QueryType::Record(rtype),
        qclass: QueryClass::Record(RecordClass::IN),
    }
}

pub async fn serve(ip: IpAddr, port: u16, log: Log, handler: Handler) {
    let addr = SocketAddr::new(ip, port);
    let tcp = TcpListener::bind(addr).await.unwrap();
    {
        let log = log.clone();
        let handler = handler.clone();
        tokio::spawn(async move {
            loop {
                let Ok((mut stream, _)) = tcp.accept().await else {
                    continue;
                };
                let log = log.clone();
                let handler = handler.clone();
                tokio::spawn(async move {
                    let Ok(len) = stream.read_u16().await else {
                        return;
                    };
                    let mut buf = vec![0u8; len as usize];
                    if stream.read_exact(&mut buf).await.is_err() {
                        return;
                    }
                    let Ok(req) = Message::from_octets(&buf) else {
                        return;
                    };
                    log.lock()
                        .unwrap()
                        .push((ip, Transport::Tcp, req.questions[0].clone()));
                    let bytes = match handler(&req, Transport::Tcp) {
                        Reply::Msg(m) => m.to_octets().unwrap().to_vec(),
                        Reply::Raw(b) => b,
                        Reply::Silence => {
                            tokio::time::sleep(Duration::from_secs(30)).await;
                            return;
                        }
                    };
                    let _ = stream.write_all(&(bytes.len() as u16).to_be_bytes()).await;
                    let _ = stream.write_all(&bytes).await;
                    let _ = stream.flush().await;
                    tokio::time::sleep(Duration::from_millis(200)).await;
                });
            }
        });
    }
    let udp = UdpSocket::bind(addr).await.unwrap();
    tokio::spawn(async move {
        let mut buf = [0u8; 512];
        loop {
            let Ok((n, peer)) = udp.recv_from(&mut buf).await else {
                continue;
            };
            let Ok(req) = Message::from_octets(&buf[..n]) else {
                continue;
            };
            log.lock()
                .unwrap()
                .push((ip, Transport::Udp, req.questions[0].clone()));
            match handler(&req, Transport::Udp) {
                Reply::Msg(m) => {
                    let _ = udp.send_to(&m.to_octets().unwrap(), peer).await;
                }
                Reply::Raw(b) => {
                    let _ = udp.send_to(&b, peer).await;
                }
                Reply::Silence => (),
            }
        }
    });
}

pub fn hints(text: &str) -> Zones {
    let mut zones = Zones::new();
    zones.insert(Zone::deserialise(text).unwrap());
    zones
}

pub async fn free_port() -> u16 {
    TcpListener::bind("127.0.0.1:0")
        .await
        .unwrap()
        .local_addr()
        .unwrap()
        .port()
}


#[tokio::test(flavor = "multi_thread")]
async fn only_v6_never_contacts_an_ipv4_host() {
    let port = free_port().await;
    let log: Log = Arc::new(Mutex::new(Vec::new()));

    // the root server is reachable over IPv6 only, at [::1].  It refers
    // `example.` to `ns.example.`, whose AAAA glue is ::ffff:127.0.0.3
    serve(
        IpAddr::V6(Ipv6Addr::LOCALHOST),
        port,
        log.clone(),
        Arc::new(|req, _| {
            let mut m = req.make_response();
            m.authority.push(ns("example.", "ns.example."));
            m.additional.push(aaaa(
                "ns.example.",
                Ipv4Addr::new(127, 0, 0, 3).to_ipv6_mapped(),
            ));
            Reply::Msg(m)
        }),
    )
    .await;
    // an IPv4-only host: AF_INET sockets bound to 127.0.0.3
    serve(
        IpAddr::V4(Ipv4Addr::new(127, 0, 0, 3)),
        port,
        log.clone(),
        Arc::new(|req, _| {
            let mut m = req.make_response();
            m.header.is_authoritative = true;
            m.answers
                .push(a(&req.questions[0].name.to_dotted_string(), [10, 0, 0, 1]));
            Reply::Msg(m)
        }),
    )
    .await;

    let zones = hints(". 3600 IN NS ns.root.\nns.root. 3600 IN AAAA ::1\n");
    let cache = SharedCache::new();
    let (_, result) = resolve(
        true,
        ProtocolMode::OnlyV6,
        port,
        None,
        &zones,
        &cache,
        &q("www.example.", RecordType::A),
    )
    .await;
    println!("www.example. IN A  =>  {result:?}");

    let contacted = log
        .lock()
        .unwrap()
        .iter()
        .map(|(ip, t, q)| format!("{ip} {t:?} {q}"))
        .collect::<Vec<_>>();
    println!("contacted: {contacted:#?}");

    // control: the IPv6 root server was asked
    assert!(log.lock().unwrap().iter().any(|(ip, _, _)| ip.is_ipv6()));
    // only-v6: no query may arrive at an IPv4 host
    let v4 = log
        .lock()
        .unwrap()
        .iter()
        .filter(|(ip, _, _)| ip.is_ipv4())
        .map(|(ip, t, q)| format!("{ip} {t:?} {q}"))
        .collect::<Vec<_>>();
    assert!(
        v4.is_empty(),
        "only-v6, but these queries arrived at IPv4-only sockets: {v4:#?}"
    );
}
