//! C08 ("each resolution finishes ... within its 60-second budget (each
//! upstream exchange within 5 seconds per transport)"): a single well-formed
//! 64 KiB TCP reply keeps the resolver busy for 10 - 20 seconds *after* it has
//! been received, in a synchronous computation that neither the 5 s exchange
//! timeout nor the 60 s resolution timeout can interrupt (tokio timeouts only
//! fire when the future yields).
//!
//! The reply: a 255-octet name (127 one-octet labels), a chain of ~8000
//! compression pointers leading to it (each pointing strictly backwards, as
//! RFC 1035 wants), and ~3000 MINFO records of 16 octets each whose three
//! names are 2-octet pointers to the end of the chain.  `DomainName::deserialise`
//! re-walks the whole chain for every one of those ~9000 names, allocating and
//! copying a 128-label vector at each of the ~8000 levels: ~75 million
//! allocate-and-copy steps for one message.
//!
//! (The resolutions run on a thread with a 64 MiB stack, so that the stack
//! exhaustion shown in demo2 does not get in the way: this is about time.)
//!
//! Put this file in crates/resolved/tests/ and run
//!
//!     cargo test --offline -p resolved --test demo1 -- --nocapture --test-threads=1
//!
//! The first test takes ~15-25 s, the second ~75-85 s.

use std::io::{Read, Write};
use std::net::{TcpListener, UdpSocket};
use std::sync::{Arc, Mutex};
use std::time::{Duration, Instant};

use dns_resolver::cache::SharedCache;
use dns_resolver::resolve;
use dns_resolver::util::types::*;
use dns_types::protocol::types::*;
use dns_types::zones::types::*;

fn domain(s: &str) -> DomainName {
    DomainName::from_dotted_string(s).unwrap()
}

/// A well-formed reply to the question in `request` (header + question), with
/// an answer `<qname> A 1.2.3.4` in it.
fn expensive_message(request: &[u8]) -> Vec<u8> {
    let mut m = Vec::new();
    m.extend_from_slice(&request[..2]); // ID
    m.extend_from_slice(&[0x84, 0x00]); // QR AA, NOERROR
    m.extend_from_slice(&[0, 1, 0, 0, 0, 0, 0, 0]); // ANCOUNT patched below
    m.extend_from_slice(&request[12..]); // the question (name at offset 12)
    let mut ancount = 0u16;

    // <qname> IN A 1.2.3.4
    m.extend_from_slice(&[0xC0, 12, 0, 1, 0, 1, 0, 0, 0, 60, 0, 4, 1, 2, 3, 4]);
    ancount += 1;

    // <qname> IN NULL <opaque: a 255-octet name, then the pointer chain>
    m.extend_from_slice(&[0xC0, 12, 0, 10, 0, 1, 0, 0, 0, 60]);
    let long_name = m.len() + 2;
    let chain = long_name + 255;
    let links = (0x3fff - chain) / 2;
    m.extend_from_slice(&u16::try_from(255 + 2 * links).unwrap().to_be_bytes());
    for _ in 0..127 {
        m.extend_from_slice(&[1, b'x']);
    }
    m.push(0);
    for k in 0..links {
        let target = if k == 0 {
            long_name
        } else {
            chain + 2 * (k - 1)
        };
        m.push(0xC0 | u8::try_from(target >> 8).unwrap());
        m.push(u8::try_from(target & 0xff).unwrap());
    }
    ancount += 1;

    // <x.x.x...> IN MINFO <x.x.x...> <x.x.x...>, all three names being pointers
    // to the last link of the chain, until the message is full
    let last = chain + 2 * (links - 1);
    let pointer = [
        0xC0 | u8::try_from(last >> 8).unwrap(),
        u8::try_from(last & 0xff).unwrap(),
    ];
    while m.len() + 16 <= 65535 {
        m.extend_from_slice(&pointer);
        m.extend_from_slice(&[0, 14, 0, 1, 0, 0, 0, 60, 0, 4]);
        m.extend_from_slice(&pointer);
        m.extend_from_slice(&pointer);
        ancount += 1;
    }
    m[6..8].copy_from_slice(&ancount.to_be_bytes());
    m
}

#[derive(Default)]
struct Times {
    first_query: Option<Instant>,
    tcp_reply_sent: Option<Instant>,
}

/// The upstream nameserver, root of everything, at 127.0.0.1.
///
/// UDP: `expensive.` is answered with "truncated, use TCP".  `hop<N>.` is an
/// alias of `hop<N+1>.`, handed out one per reply and 4.5 s after the query
/// (that is within the 5 s allowed) - until 54 s have passed since the first
/// query, from then on the alias points at `expensive.`, and the "truncated"
/// reply for that is sent when 58.5 s have passed.
///
/// TCP: the expensive reply.
fn start_upstream(times: &Arc<Mutex<Times>>) -> u16 {
    let tcp = TcpListener::bind("127.0.0.1:0").unwrap();
    let port = tcp.local_addr().unwrap().port();
    let udp = UdpSocket::bind(("127.0.0.1", port)).unwrap();

    let t = times.clone();
    std::thread::spawn(move || {
        let mut buf = [0u8; 512];
        loop {
            let Ok((n, peer)) = udp.recv_from(&mut buf) else {
                continue;
            };
            let Ok(request) = Message::from_octets(&buf[..n]) else {
                continue;
            };
            let first_query = *t.lock().unwrap().first_query.get_or_insert_with(Instant::now);
            let qname = request.questions[0].name.clone();
            let mut response = request.make_response();
            response.header.is_authoritative = true;

            let hop = (0..30).find(|i| qname == domain(&format!("hop{i}.")));
            if let Some(i) = hop {
                std::thread::sleep(Duration::from_millis(4500));
                let target = if first_query.elapsed() >= Duration::from_secs(54) {
                    domain("expensive.")
                } else {
                    domain(&format!("hop{}.", i + 1))
                };
                response.answers.push(ResourceRecord {
                    name: qname,
                    rtype_with_data: RecordTypeWithData::CNAME { cname: target },
                    rclass: RecordClass::IN,
                    ttl: 60,
                });
                let _ = udp.send_to(&response.to_octets().unwrap(), peer);
            } else {
                if first_query.elapsed() >= Duration::from_secs(50) {
                    let wait = Duration::from_millis(58_500).saturating_sub(first_query.elapsed());
                    std::thread::sleep(wait);
                }
                response.header.is_truncated = true;
                let mut bytes = response.to_octets().unwrap().to_vec();
                bytes[2] |= 0b0000_0010;
                let _ = udp.send_to(&bytes, peer);
            }
        }
    });

    let t = times.clone();
    std::thread::spawn(move || {
        for stream in tcp.incoming() {
            let Ok(mut stream) = stream else { continue };
            let mut len = [0u8; 2];
            if stream.read_exact(&mut len).is_err() {
                continue;
            }
            let mut request = vec![0u8; usize::from(u16::from_be_bytes(len))];
            if stream.read_exact(&mut request).is_err() {
                continue;
            }
            let reply = expensive_message(&request);
            let _ = stream.write_all(&u16::try_from(reply.len()).unwrap().to_be_bytes());
            let _ = stream.write_all(&reply);
            let _ = stream.flush();
            t.lock().unwrap().tcp_reply_sent = Some(Instant::now());
            std::thread::sleep(Duration::from_millis(500));
        }
    });

    port
}

/// Resolve `<name> IN A` recursively, on a thread with a 64 MiB stack.  Returns
/// the result, and when it was there.
fn resolve_on_a_big_stack(
    port: u16,
    name: &'static str,
) -> (Result<ResolvedRecord, ResolutionError>, Instant) {
    std::thread::Builder::new()
        .stack_size(64 << 20)
        .spawn(move || {
            let runtime = tokio::runtime::Builder::new_current_thread()
                .enable_all()
                .build()
                .unwrap();
            runtime.block_on(async move {
                let mut zones = Zones::new();
                zones.insert(
                    Zone::deserialise(
                        ". 3600 IN NS ns.upstream.test.\nns.upstream.test. 3600 IN A 127.0.0.1\n",
                    )
                    .unwrap(),
                );
                let cache = SharedCache::new();
                let question = Question {
                    name: domain(name),
                    qtype: QueryType::Record(RecordType::A),
                    qclass: QueryClass::Record(RecordClass::IN),
                };
                let (_, result) = resolve(
                    true,
                    ProtocolMode::OnlyV4,
                    port,
                    None,
                    &zones,
                    &cache,
                    &question,
                )
                .await;
                (result, Instant::now())
            })
        })
        .unwrap()
        .join()
        .unwrap()
}

/// One question, one nameserver, one UDP exchange (answered at once with
/// "truncated") and one TCP exchange (answered at once).
#[test]
fn a_tcp_exchange_takes_at_most_five_seconds() {
    let times = Arc::new(Mutex::new(Times::default()));
    let port = start_upstream(&times);

    let (result, done) = resolve_on_a_big_stack(port, "expensive.");

    let times = times.lock().unwrap();
    let total = done - times.first_query.unwrap();
    let after_reply = done - times.tcp_reply_sent.unwrap();
    println!("result: {:?}", result.map(ResolvedRecord::rrs));
    println!("the resolution took {total:?}; {after_reply:?} of that after the complete TCP reply had been sent");

    assert!(
        after_reply <= Duration::from_millis(5500),
        "the TCP exchange went on for {after_reply:?} after the upstream had sent its complete reply - the 5 s timeout did not end it"
    );
}

/// Thirteen upstream exchanges which each stay within their 5 seconds, and then
/// the expensive one, begun 58.5 s into the resolution.
#[test]
fn a_resolution_takes_at_most_sixty_seconds() {
    let times = Arc::new(Mutex::new(Times::default()));
    let port = start_upstream(&times);

    let (result, done) = resolve_on_a_big_stack(port, "hop0.");

    let times = times.lock().unwrap();
    let total = done - times.first_query.unwrap();
    println!("result: {:?}", result.map(ResolvedRecord::rrs));
    println!("the resolution took {total:?}");
    if let Some(sent) = times.tcp_reply_sent {
        println!(
            "the expensive TCP reply had been sent {:?} into the resolution",
            sent - times.first_query.unwrap()
        );
    }

    assert!(
        total <= Duration::from_secs(61),
        "the resolution took {total:?}: the 60 s budget did not end it"
    );
}
