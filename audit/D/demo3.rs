//! C06 / C08: records of a class other than the one asked for (here CH, class
//! 3, in replies to IN questions) are not ignored.
//!
//! `validate_nameserver_response` drops unknown-class records from the records
//! it returns for an answer (`ResourceRecord::is_unknown`), but
//!
//! - `follow_cnames` still follows a CH-class CNAME, so the A record at its
//!   target is used and cached as the answer to the question although the
//!   alias leading there is thrown away;
//! - the delegation branch takes CH-class NS records and CH-class glue without
//!   any class check, follows them, and caches them;
//! - the cache does not store the class at all and hands every record back as
//!   class IN, so later answers contain `example. IN NS ...` and
//!   `ns.example. IN A ...` - records which no upstream reply and no local
//!   data ever supplied.
//!
//! Put this file in crates/resolved/tests/ and run
//!
//!     cargo test --offline -p resolved --test demo3 -- --nocapture --test-threads=1

#![allow(dead_code, unused_imports)]
use std::net::{IpAddr, Ipv4Addr, Ipv6Addr, SocketAddr};
use std::sync::{Arc, Mutex};
use std::time::{Duration, Instant};

use tokio::io::{AsyncReadExt, AsyncWriteExt};
use tokio::net::{TcpListener, UdpSocket};

use dns_resolver::cache::SharedCache;
use dns_resolver::resolve;
use dns_resolver::util::types::*;
use dns_types::protocol::types::*;
use dns_types::zones::types::*;

#[derive(Debug, Clone, Copy, PartialEq, Eq)]
pub enum Transport {
    Udp,
    Tcp,
}

pub enum Reply {
    Msg(Message),
    Raw(Vec<u8>),
    Silence,
}

pub type Log = Arc<Mutex<Vec<(IpAddr, Transport, Question)>>>;
pub type Handler = Arc<dyn Fn(&Message, Transport) -> Reply + Send + Sync>;

pub fn domain(s: &str) -> DomainName {
    DomainName::from_dotted_string(s).unwrap()
}
pub fn rr(name: &str, ttl: u32, data: RecordTypeWithData) -> ResourceRecord {
    ResourceRecord {
        name: domain(name),
        rtype_with_data: data,
        rclass: RecordClass::IN,
        ttl,
    }
}
pub fn a(name: &str, ip: [u8; 4]) -> ResourceRecord {
    rr(
        name,
        300,
        RecordTypeWithData::A {
            address: Ipv4Addr::from(ip),
        },
    )
}
pub fn aaaa(name: &str, ip: Ipv6Addr) -> ResourceRecord {
    rr(name, 300, RecordTypeWithData::AAAA { address: ip })
}
pub fn ns(name: &str, host: &str) -> ResourceRecord {
    rr(
        name,
        300,
        RecordTypeWithData::NS {
            nsdname: domain(host),
        },
    )
}
pub fn cname(name: &str, target: &str) -> ResourceRecord {
    rr(
        name,
        300,
        RecordTypeWithData::CNAME {
            cname: domain(target),
        },
    )
}
pub fn q(name: &str, rtype: RecordType) -> Question {
    Question {
        name: domain(name),
        qtype: QueryType::Record(rtype),
        qclass: QueryClass::Record(RecordClass::IN),
    }
}

pub async fn serve(ip: IpAddr, port: u16, log: Log, handler: Handler) {
    let addr = SocketAddr::new(ip, port);
    let tcp = TcpListener::bind(addr).await.unwrap();
    {
        let log = log.clone();
        let handler = handler.clone();
        tokio::spawn(async move {
            loop {
                let Ok((mut stream, _)) = tcp.accept().await else {
                    continue;
                };
                let log = log.clone();
                let handler = handler.clone();
                tokio::spawn(async move {
                    let Ok(len) = stream.read_u16().await else {
                        return;
                    };
                    let mut buf = vec![0u8; len as usize];
                    if stream.read_exact(&mut buf).await.is_err() {
                        return;
                    }
                    let Ok(req) = Message::from_octets(&buf) else {
                        return;
                    };
                    log.lock()
                        .unwrap()
                        .push((ip, Transport::Tcp, req.questions[0].clone()));
                    let bytes = match handler(&req, Transport::Tcp) {
                        Reply::Msg(m) => m.to_octets().unwrap().to_vec(),
                        Reply::Raw(b) => b,
                        Reply::Silence => {
                            tokio::time::sleep(Duration::from_secs(30)).await;
                            return;
                        }
                    };
                    let _ = stream.write_all(&(bytes.len() as u16).to_be_bytes()).await;
                    let _ = stream.write_all(&bytes).await;
                    let _ = stream.flush().await;
                    tokio::time::sleep(Duration::from_millis(200)).await;
                });
            }
        });
    }
    let udp = UdpSocket::bind(addr).await.unwrap();
    tokio::spawn(async move {
        let mut buf = [0u8; 512];
        loop {
            let Ok((n, peer)) = udp.recv_from(&mut buf).await else {
                continue;
            };
            let Ok(req) = Message::from_octets(&buf[..n]) else {
                continue;
            };
            log.lock()
                .unwrap()
                .push((ip, Transport::Udp, req.questions[0].clone()));
            match handler(&req, Transport::Udp) {
                Reply::Msg(m) => {
                    let _ = udp.send_to(&m.to_octets().unwrap(), peer).await;
                }
                Reply::Raw(b) => {
                    let _ = udp.send_to(&b, peer).await;
                }
                Reply::Silence => (),
            }
        }
    });
}

pub fn hints(text: &str) -> Zones {
    let mut zones = Zones::new();
    zones.insert(Zone::deserialise(text).unwrap());
    zones
}

pub async fn free_port() -> u16 {
    TcpListener::bind("127.0.0.1:0")
        .await
        .unwrap()
        .local_addr()
        .unwrap()
        .port()
}


fn ch() -> RecordClass {
    RecordClass::from(3)
}

/// Every record the fake upstream servers send goes in here.
type Supplied = Arc<Mutex<Vec<ResourceRecord>>>;

fn supply(supplied: &Supplied, m: &Message) {
    let mut s = supplied.lock().unwrap();
    s.extend(m.answers.iter().cloned());
    s.extend(m.authority.iter().cloned());
    s.extend(m.additional.iter().cloned());
}

fn was_supplied(supplied: &Supplied, rr: &ResourceRecord) -> bool {
    supplied.lock().unwrap().iter().any(|s| {
        s.name == rr.name && s.rtype_with_data == rr.rtype_with_data && s.rclass == rr.rclass
    })
}

/// The root server (127.0.0.1) refers `example.` to `ns.example.` with an NS
/// record and a glue record of class CH.  Nothing of class IN is said about
/// either.
async fn universe(port: u16, log: &Log, supplied: &Supplied) {
    let s = supplied.clone();
    serve(
        IpAddr::V4(Ipv4Addr::new(127, 0, 0, 1)),
        port,
        log.clone(),
        Arc::new(move |req, _| {
            let mut m = req.make_response();
            let mut n = ns("example.", "ns.example.");
            n.rclass = ch();
            let mut g = a("ns.example.", [127, 0, 0, 4]);
            g.rclass = ch();
            m.authority.push(n);
            m.additional.push(g);
            supply(&s, &m);
            Reply::Msg(m)
        }),
    )
    .await;
    // 127.0.0.4 answers `www.example. A` with a CH-class alias and an IN-class
    // address at the alias target
    let s = supplied.clone();
    serve(
        IpAddr::V4(Ipv4Addr::new(127, 0, 0, 4)),
        port,
        log.clone(),
        Arc::new(move |req, _| {
            let mut m = req.make_response();
            m.header.is_authoritative = true;
            let mut c = cname("www.example.", "target.example.");
            c.rclass = ch();
            m.answers.push(c);
            m.answers.push(a("target.example.", [6, 6, 6, 6]));
            supply(&s, &m);
            Reply::Msg(m)
        }),
    )
    .await;
}

#[tokio::test(flavor = "multi_thread")]
async fn records_of_another_class_are_ignored() {
    let port = free_port().await;
    let log: Log = Arc::new(Mutex::new(Vec::new()));
    let supplied: Supplied = Arc::new(Mutex::new(Vec::new()));
    universe(port, &log, &supplied).await;

    let zones = hints(". 3600 IN NS ns.root.\nns.root. 3600 IN A 127.0.0.1\n");
    let cache = SharedCache::new();

    let (_, result) = resolve(
        true,
        ProtocolMode::OnlyV4,
        port,
        None,
        &zones,
        &cache,
        &q("www.example.", RecordType::A),
    )
    .await;
    println!("www.example. IN A  =>  {result:?}");
    println!("contacted: {:?}", log.lock().unwrap().iter().map(|(ip, t, q)| format!("{ip} {t:?} {q}")).collect::<Vec<_>>());

    let mut problems = Vec::new();

    // C06: the referral holds no IN-class NS record and no IN-class address:
    // nothing in it is relevant to the IN question, nothing of it may be cached
    // or followed
    for (name, rtype, why) in [
        ("example.", RecordType::NS, "cached from a CH-class NS record"),
        ("ns.example.", RecordType::A, "cached from a CH-class glue record"),
        (
            "target.example.",
            RecordType::A,
            "cached, though reachable from the question name only through a discarded CH-class alias",
        ),
    ] {
        let cached = cache.get(&domain(name), QueryType::Record(rtype));
        if !cached.is_empty() {
            problems.push(format!("C06: {why}: {cached:?}"));
        }
    }
    if log
        .lock()
        .unwrap()
        .iter()
        .any(|(ip, _, _)| *ip == IpAddr::V4(Ipv4Addr::new(127, 0, 0, 4)))
    {
        problems.push("C06: followed a CH-class NS record to its CH-class glue address 127.0.0.4".to_string());
    }
    // C06: `target.example.` is reached from `www.example.` only through a
    // record the resolver itself throws away
    if let Ok(resolved) = &result {
        for rr in resolved.clone().rrs() {
            if rr.name != domain("www.example.") {
                problems.push(format!("C06: answer to `www.example. IN A` holds {rr:?} and no alias leading there"));
            }
        }
    }

    // C08: whatever is answered must have been supplied by somebody
    for question in [q("example.", RecordType::NS), q("ns.example.", RecordType::A)] {
        let (_, result) = resolve(
            true,
            ProtocolMode::OnlyV4,
            port,
            None,
            &zones,
            &cache,
            &question,
        )
        .await;
        println!("{question}  =>  {result:?}");
        if let Ok(resolved) = result {
            for rr in resolved.rrs() {
                if !was_supplied(&supplied, &rr) {
                    problems.push(format!(
                        "C08: `{question}` answered with {rr:?}, which nobody supplied"
                    ));
                }
            }
        }
    }

    assert!(problems.is_empty(), "\n{}", problems.join("\n"));
}
