use dns_resolver::cache::SharedCache;
use dns_types::protocol::types::*;
use std::collections::{HashMap, HashSet};
use std::net::{Ipv4Addr, Ipv6Addr};
use std::time::{Duration, Instant};

struct Rng(u64);
impl Rng {
    fn next(&mut self) -> u64 {
        self.0 ^= self.0 << 13;
        self.0 ^= self.0 >> 7;
        self.0 ^= self.0 << 17;
        self.0
    }
    fn below(&mut self, n: usize) -> usize {
        (self.next() % (n as u64)) as usize
    }
}

fn dn(s: &str) -> DomainName {
    DomainName::from_dotted_string(s).unwrap()
}

fn values() -> Vec<RecordTypeWithData> {
    let unk = match RecordType::from(999) {
        RecordType::Unknown(t) => t,
        _ => unreachable!(),
    };
    vec![
        RecordTypeWithData::A { address: Ipv4Addr::new(10, 0, 0, 1) },
        RecordTypeWithData::A { address: Ipv4Addr::new(10, 0, 0, 2) },
        RecordTypeWithData::A { address: Ipv4Addr::new(10, 0, 0, 3) },
        RecordTypeWithData::AAAA { address: Ipv6Addr::LOCALHOST },
        RecordTypeWithData::AAAA { address: Ipv6Addr::UNSPECIFIED },
        RecordTypeWithData::TXT { octets: bytes::Bytes::from_static(b"one") },
        RecordTypeWithData::TXT { octets: bytes::Bytes::from_static(b"") },
        RecordTypeWithData::MX { preference: 1, exchange: dn("mx.example.") },
        RecordTypeWithData::MX { preference: 2, exchange: dn("mx.example.") },
        RecordTypeWithData::CNAME { cname: dn("t.example.") },
        RecordTypeWithData::NS { nsdname: dn("ns1.example.") },
        RecordTypeWithData::NS { nsdname: dn("ns2.example.") },
        RecordTypeWithData::SOA { mname: dn("m."), rname: dn("r."), serial: 1, refresh: 2, retry: 3, expire: 4, minimum: 5 },
        RecordTypeWithData::Unknown { tag: unk, octets: bytes::Bytes::from_static(b"\x00\x01") },
    ]
}

const TTLS: &[u32] = &[0, 1, 1, 2, 2, 3, 4, 5, 300, u32::MAX];

fn run(seed: u64, size: usize, quirk: bool, steps: usize) -> Vec<String> {
    let mut problems = Vec::new();
    let mut rng = Rng(seed.wrapping_mul(0x9E3779B97F4A7C15) | 1);
    let names: Vec<DomainName> = ["a.example.", "b.example.", "c.example.", "."].iter().map(|s| dn(s)).collect();
    let vals = values();
    let qtypes: Vec<QueryType> = {
        let mut v: Vec<QueryType> = vals.iter().map(|x| QueryType::Record(x.rtype())).collect();
        v.push(QueryType::Record(RecordType::PTR));
        v.push(QueryType::Wildcard);
        v.push(QueryType::Wildcard);
        v.push(QueryType::Wildcard);
        v
    };
    let c = SharedCache::with_desired_size(size);
    // (name idx, rdata) -> (lo, hi, ttl)
    let mut model: HashMap<(usize, RecordTypeWithData), (Instant, Instant, u32)> = HashMap::new();
    let mut last_use: Vec<u64> = vec![0; names.len()];
    let mut keyset: Vec<HashSet<RecordType>> = vec![HashSet::new(); names.len()];
    let mut seq = 0u64;
    let mut trace: Vec<String> = Vec::new();

    macro_rules! bad {
        ($($arg:tt)*) => {{
            let m = format!($($arg)*);
            problems.push(format!("seed {seed} size {size} step {}: {m}\n   trace tail: {:?}", trace.len(), &trace[trace.len().saturating_sub(12)..]));
        }};
    }

    for _ in 0..steps {
        seq += 1;
        match rng.below(10) {
            0..=3 => {
                // insert (sometimes batch)
                let n = if rng.below(4) == 0 { 1 + rng.below(4) } else { 1 };
                let mut rrs = Vec::new();
                for _ in 0..n {
                    let ni = rng.below(names.len());
                    let v = vals[rng.below(vals.len())].clone();
                    let ttl = TTLS[rng.below(TTLS.len())];
                    rrs.push((ni, ResourceRecord { name: names[ni].clone(), rtype_with_data: v, rclass: RecordClass::IN, ttl }));
                }
                let lo = Instant::now();
                if n == 1 && rng.below(2) == 0 {
                    c.insert(&rrs[0].1);
                } else {
                    c.insert_all(&rrs.iter().map(|x| x.1.clone()).collect::<Vec<_>>());
                }
                let hi = Instant::now();
                for (ni, rr) in &rrs {
                    trace.push(format!("ins {} {:?} ttl {}", ni, rr.rtype_with_data.rtype(), rr.ttl));
                    if rr.ttl > 0 {
                        model.insert((*ni, rr.rtype_with_data.clone()), (lo, hi, rr.ttl));
                        seq += 1;
                        last_use[*ni] = seq;
                        keyset[*ni].insert(rr.rtype_with_data.rtype());
                    }
                }
            }
            4..=6 => {
                let ni = rng.below(names.len());
                let qt = qtypes[rng.below(qtypes.len())];
                let checked = rng.below(3) != 0;
                let lo = Instant::now();
                let got = if checked { c.get(&names[ni], qt) } else { c.get_without_checking_expiration(&names[ni], qt) };
                let hi = Instant::now();
                trace.push(format!("get{} {} {:?} -> {}", if checked { "" } else { "_unchecked" }, ni, qt, got.len()));
                let mut seen = HashSet::new();
                for rr in &got {
                    if rr.name != names[ni] || rr.rclass != RecordClass::IN { bad!("wrong name/class {rr:?}"); }
                    if !rr.rtype_with_data.matches(qt) { bad!("type mismatch {rr:?}"); }
                    if !seen.insert(rr.rtype_with_data.clone()) { bad!("duplicate in answer {rr:?}"); }
                    match model.get(&(ni, rr.rtype_with_data.clone())) {
                        None => bad!("returned record not in model {rr:?}"),
                        Some((_ilo, ihi, ttl)) => {
                            let exp_max = *ihi + Duration::from_secs(u64::from(*ttl));
                            let left_max = exp_max.saturating_duration_since(lo);
                            if Duration::from_secs(u64::from(rr.ttl)) > left_max { bad!("ttl {} exceeds time left {:?}", rr.ttl, left_max); }
                            if checked && rr.ttl == 0 { bad!("checked get returned ttl 0"); }
                        }
                    }
                }
                let mut present = 0;
                for ((mni, v), (ilo, _ihi, ttl)) in &model {
                    if *mni != ni || !v.matches(qt) { continue; }
                    present += 1;
                    let exp_min = *ilo + Duration::from_secs(u64::from(*ttl));
                    let left_min = exp_min.saturating_duration_since(hi);
                    let must = if checked { left_min >= Duration::from_secs(1) } else { true };
                    if must && !seen.contains(v) { bad!("live record {v:?} (left>={left_min:?}) not returned"); }
                    if seen.contains(v) {
                        // lower bound sanity: reported >= floor(left_min)
                        let got_ttl = got.iter().find(|r| &r.rtype_with_data == v).unwrap().ttl;
                        if u64::from(got_ttl) < left_min.as_secs().min(u64::from(u32::MAX)) { bad!("ttl {got_ttl} lower than floor(left_min {left_min:?})"); }
                    }
                }
                let bump = if quirk {
                    match qt {
                        QueryType::Wildcard => !keyset[ni].is_empty(),
                        QueryType::Record(rt) => keyset[ni].contains(&rt),
                        _ => false,
                    }
                } else {
                    present > 0
                };
                if bump { last_use[ni] = seq; }
            }
            7 => {
                let before = model.len();
                let lo = Instant::now();
                let (of, cur, exp, ev) = c.prune();
                let hi = Instant::now();
                trace.push(format!("prune -> {:?}", (of, cur, exp, ev)));
                // dump
                let mut order: Vec<usize> = (0..names.len()).collect();
                for i in (1..order.len()).rev() { order.swap(i, rng.below(i + 1)); }
                let mut dump: HashSet<(usize, RecordTypeWithData)> = HashSet::new();
                let mut dump_n = 0;
                let mut bumps = Vec::new();
                for &ni in &order {
                    let got = c.get_without_checking_expiration(&names[ni], QueryType::Wildcard);
                    if !got.is_empty() { bumps.push(ni); }
                    for rr in got { dump_n += 1; dump.insert((ni, rr.rtype_with_data)); }
                }
                if dump_n != dump.len() { bad!("duplicates in dump"); }
                if cur != dump_n { bad!("prune reports remaining {cur} but cache holds {dump_n}"); }
                if cur > size { bad!("remaining {cur} > size {size}"); }
                if of != (before > size) { bad!("overflow flag {of} but before={before} size={size}"); }
                if exp + ev + cur != before { bad!("exp {exp} + ev {ev} + cur {cur} != before {before}"); }
                let mut uncertain = false;
                let mut live: HashSet<(usize, RecordTypeWithData)> = HashSet::new();
                for (k, (ilo, ihi, ttl)) in &model {
                    let d = Duration::from_secs(u64::from(*ttl));
                    if *ihi + d <= lo {
                        if dump.contains(k) { bad!("expired record left behind {k:?}"); }
                    } else if *ilo + d > hi {
                        live.insert(k.clone());
                    } else if dump.contains(k) {
                        live.insert(k.clone());
                    } else {
                        uncertain = true;
                    }
                }
                for k in &dump { if !live.contains(k) { bad!("dump has non-live/unknown {k:?}"); } }
                if !uncertain {
                    let r = live.len();
                    if exp != before - r { bad!("expired reported {exp}, expected {}", before - r); }
                    let mut per: HashMap<usize, usize> = HashMap::new();
                    for (ni, _) in &live { *per.entry(*ni).or_default() += 1; }
                    let mut ns: Vec<usize> = per.keys().copied().collect();
                    ns.sort_by_key(|n| last_use[*n]);
                    let mut remaining = r;
                    let mut evn = HashSet::new();
                    for n in ns {
                        if remaining <= size { break; }
                        remaining -= per[&n];
                        evn.insert(n);
                    }
                    let expect: HashSet<_> = live.iter().filter(|(n, _)| !evn.contains(n)).cloned().collect();
                    if ev != r - remaining { bad!("evicted reported {ev}, expected {} (names {evn:?}, last_use {last_use:?})", r - remaining); }
                    if expect != dump {
                        let got_names: HashSet<usize> = dump.iter().map(|x| x.0).collect();
                        let exp_names: HashSet<usize> = expect.iter().map(|x| x.0).collect();
                        bad!("LRU/evict mismatch: expected names {exp_names:?} got {got_names:?}; last_use {last_use:?} per {per:?}");
                    }
                }
                // resync model to the dump
                model.retain(|k, _| dump.contains(k));
                for ni in 0..names.len() {
                    if !dump.iter().any(|x| x.0 == ni) { keyset[ni].clear(); }
                }
                for ni in bumps { seq += 1; last_use[ni] = seq; }
            }
            _ => {
                let ms = [30, 200, 400, 700, 1000, 1050, 1300][rng.below(7)];
                trace.push(format!("sleep {ms}"));
                std::thread::sleep(Duration::from_millis(ms));
            }
        }
        if problems.len() > 3 { break; }
    }
    problems
}

fn sweep(quirk: bool) {
    let mut hs = Vec::new();
    for seed in 1..=24u64 {
        let size = [0, 1, 2, 3, 4, 6, 9, 14][(seed % 8) as usize];
        hs.push(std::thread::spawn(move || run(seed, size, quirk, 150)));
    }
    let mut all = Vec::new();
    for h in hs { all.extend(h.join().unwrap()); }
    for p in &all { println!("{p}\n"); }
    assert!(all.is_empty(), "{} problems", all.len());
}

#[test]
fn model_strict() { sweep(false); }

#[test]
fn model_quirk() { sweep(true); }
