//! C15: "evicts whole names in least-recently-used order".
//!
//! A typed lookup that MISSES (returns no record at all, even through
//! `get_without_checking_expiration`) still counts as a use of the name if
//! the name once held a record of that type which has since been removed by
//! `prune`: `remove_expired_step` leaves an empty `Vec` under the record type
//! key, and `PartitionedCache::get_without_checking_expiration` refreshes
//! `last_read` whenever the key exists.  The next size-prune then evicts a
//! name that was used more recently than the one that is kept.  A miss for a
//! type the name never held does not refresh the name (control test).

use dns_resolver::cache::SharedCache;
use dns_types::protocol::types::*;
use std::net::Ipv4Addr;
use std::time::Duration;

fn dn(s: &str) -> DomainName {
    DomainName::from_dotted_string(s).unwrap()
}

fn a(name: &str, ttl: u32) -> ResourceRecord {
    ResourceRecord {
        name: dn(name),
        rtype_with_data: RecordTypeWithData::A {
            address: Ipv4Addr::new(10, 0, 0, 1),
        },
        rclass: RecordClass::IN,
        ttl,
    }
}

fn txt(name: &str, ttl: u32) -> ResourceRecord {
    ResourceRecord {
        name: dn(name),
        rtype_with_data: RecordTypeWithData::TXT {
            octets: bytes::Bytes::from_static(b"short lived"),
        },
        rclass: RecordClass::IN,
        ttl,
    }
}

fn held(cache: &SharedCache, name: &str) -> usize {
    cache.get(&dn(name), QueryType::Wildcard).len()
}

fn scenario(probe: RecordType) {
    let cache = SharedCache::with_desired_size(2);

    // "old." is used first, "new." is used after it.
    cache.insert(&a("old.example.", 300));
    cache.insert(&txt("old.example.", 1));
    std::thread::sleep(Duration::from_millis(20));
    cache.insert(&a("new.example.", 300));

    // the TXT record expires and is removed; nothing is evicted (2 <= 2)
    std::thread::sleep(Duration::from_millis(1100));
    assert_eq!((true, 2, 1, 0), cache.prune());

    // a lookup which finds nothing: a miss
    std::thread::sleep(Duration::from_millis(20));
    let miss = cache.get_without_checking_expiration(&dn("old.example."), QueryType::Record(probe));
    assert!(miss.is_empty());

    // a third name pushes the cache over its size: one name has to go, and
    // the least recently used one is "old." (last used: its inserts, before
    // "new." was inserted)
    std::thread::sleep(Duration::from_millis(20));
    cache.insert(&a("third.example.", 300));
    assert_eq!((true, 2, 0, 1), cache.prune());

    assert_eq!(
        (0, 1, 1),
        (
            held(&cache, "old.example."),
            held(&cache, "new.example."),
            held(&cache, "third.example.")
        ),
        "records held for (old, new, third) after a miss for {probe:?}: the least recently used name is `old`"
    );
}

/// FAILS: the miss for TXT (a type whose only record expired and was pruned)
/// refreshes `old.`, so `new.` - used more recently - is evicted instead.
#[test]
fn miss_for_a_pruned_type_must_not_count_as_use() {
    scenario(RecordType::TXT);
}

/// Control, passes: a miss for a type the name never held leaves the LRU
/// order alone and `old.` is evicted.
#[test]
fn miss_for_a_type_never_held_does_not_count_as_use() {
    scenario(RecordType::MX);
}
