//! C05, last clause: "a record that has neither expired nor been evicted is
//! returned by a lookup for its name and type (or for ANY) with its data
//! unchanged."
//!
//! `Cache::get` drops every record whose remaining lifetime is below one whole
//! second (the remaining time is floored to seconds and `ttl == 0` is filtered
//! out), although the record's TTL has not elapsed and `prune` itself still
//! counts the record as live.  A TTL-1 record is stored by the shared cache
//! but can never be obtained from it.

use dns_resolver::cache::SharedCache;
use dns_types::protocol::types::*;
use std::net::Ipv4Addr;
use std::time::{Duration, Instant};

fn dn(s: &str) -> DomainName {
    DomainName::from_dotted_string(s).unwrap()
}

fn a(name: &str, last: u8, ttl: u32) -> ResourceRecord {
    ResourceRecord {
        name: dn(name),
        rtype_with_data: RecordTypeWithData::A {
            address: Ipv4Addr::new(10, 0, 0, last),
        },
        rclass: RecordClass::IN,
        ttl,
    }
}

/// A record with TTL 1 is stored (TTL is not zero) but a lookup made
/// microseconds later, long before the TTL has elapsed, does not return it.
#[test]
fn ttl_1_record_is_never_returned() {
    let cache = SharedCache::new();
    let rr = a("one.example.", 1, 1);

    let start = Instant::now();
    cache.insert(&rr);
    let typed = cache.get(&rr.name, QueryType::Record(RecordType::A));
    let any = cache.get(&rr.name, QueryType::Wildcard);
    let elapsed = start.elapsed();

    // the TTL (1s) has certainly not elapsed since the insert
    assert!(elapsed < Duration::from_millis(500), "machine too slow: {elapsed:?}");
    // ... and nothing was evicted: prune reports the record as remaining, not expired
    assert_eq!((false, 1, 0, 0), cache.prune());

    assert_eq!(1, typed.len(), "typed lookup {elapsed:?} after inserting a TTL-1 record");
    assert_eq!(1, any.len(), "ANY lookup {elapsed:?} after inserting a TTL-1 record");
}

/// The same for any TTL: in the last fraction of a second of its life the
/// record is still held (prune counts it as remaining, not as expired) but
/// lookups no longer return it.
#[test]
fn record_disappears_before_its_ttl_has_elapsed() {
    let cache = SharedCache::new();
    let rr = a("three.example.", 3, 3);

    let start = Instant::now();
    cache.insert(&rr);
    std::thread::sleep(Duration::from_millis(2200));

    let typed = cache.get(&rr.name, QueryType::Record(RecordType::A));
    let any = cache.get(&rr.name, QueryType::Wildcard);
    let pruned = cache.prune();
    let elapsed = start.elapsed();

    assert!(elapsed < Duration::from_millis(2900), "machine too slow: {elapsed:?}");
    // not expired, not evicted, according to the cache itself
    assert_eq!((false, 1, 0, 0), pruned);

    assert_eq!(1, typed.len(), "typed lookup {elapsed:?} into a 3s lifetime");
    assert_eq!(1, any.len(), "ANY lookup {elapsed:?} into a 3s lifetime");
}
