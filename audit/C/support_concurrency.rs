use dns_resolver::cache::SharedCache;
use dns_types::protocol::types::*;
use std::collections::HashSet;
use std::net::Ipv4Addr;
use std::sync::atomic::{AtomicBool, Ordering};
use std::sync::Arc;
use std::time::{Duration, Instant};

fn dn(s: &str) -> DomainName { DomainName::from_dotted_string(s).unwrap() }

#[test]
fn hammer() {
    for size in [0usize, 1, 7, 50] {
        let c = SharedCache::with_desired_size(size);
        let stop = Arc::new(AtomicBool::new(false));
        let mut hs = Vec::new();
        for t in 0..6u64 {
            let c = c.clone();
            let stop = stop.clone();
            hs.push(std::thread::spawn(move || {
                let mut x = t * 7919 + 1;
                let mut n = 0u64;
                while !stop.load(Ordering::Relaxed) {
                    x ^= x << 13; x ^= x >> 7; x ^= x << 17;
                    let name = dn(&format!("n{}.example.", x % 9));
                    let rr = ResourceRecord {
                        name: name.clone(),
                        rtype_with_data: if x % 5 == 0 {
                            RecordTypeWithData::TXT { octets: bytes::Bytes::from(vec![(x >> 8) as u8 % 3]) }
                        } else {
                            RecordTypeWithData::A { address: Ipv4Addr::new(10, 0, 0, ((x >> 8) % 6) as u8) }
                        },
                        rclass: RecordClass::IN,
                        ttl: [0, 1, 2, 3, 300, u32::MAX][((x >> 16) % 6) as usize],
                    };
                    let t0 = Instant::now();
                    c.insert(&rr);
                    let qt = if x % 3 == 0 { QueryType::Wildcard } else { QueryType::Record(rr.rtype_with_data.rtype()) };
                    let got = c.get(&name, qt);
                    let mut seen = HashSet::new();
                    for g in &got {
                        assert!(seen.insert(g.rtype_with_data.clone()), "duplicate {g:?}");
                        assert!(g.ttl > 0);
                        let _ = t0;
                    }
                    n += 1;
                }
                n
            }));
        }
        let t_end = Instant::now() + Duration::from_millis(3500);
        let mut prunes = 0;
        while Instant::now() < t_end {
            let (_of, cur, _e, _p) = c.prune();
            assert!(cur <= size, "cur {cur} size {size}");
            prunes += 1;
            std::thread::sleep(Duration::from_micros(300));
        }
        stop.store(true, Ordering::Relaxed);
        let total: u64 = hs.into_iter().map(|h| h.join().unwrap()).sum();
        // quiesced: count must equal the distinct entries
        let big = SharedCache::clone(&c);
        let mut n = 0;
        let mut distinct = HashSet::new();
        for i in 0..9 {
            for rr in big.get_without_checking_expiration(&dn(&format!("n{i}.example.")), QueryType::Wildcard) {
                n += 1;
                distinct.insert((i, rr.rtype_with_data));
            }
        }
        assert_eq!(n, distinct.len());
        // no time passes between dump and prune that could matter? records with ttl<=3 may expire: so wait them out first
        std::thread::sleep(Duration::from_millis(3100));
        let mut n2 = 0;
        let mut expired_n = 0;
        for i in 0..9 {
            for rr in big.get_without_checking_expiration(&dn(&format!("n{i}.example.")), QueryType::Wildcard) {
                n2 += 1;
                if rr.ttl < 100 { expired_n += 1; assert_eq!(rr.ttl, 0); }
            }
        }
        assert_eq!(n, n2);
        let (of, cur, e, p) = big.prune();
        println!("size {size}: ops {total} prunes {prunes} held {n} -> prune {:?}", (of, cur, e, p));
        assert_eq!(e, expired_n);
        assert_eq!(cur + e + p, n);
        assert!(cur <= size);
        assert_eq!(of, n > size);
    }
}
