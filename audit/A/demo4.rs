//! C01 ("the reply is marked authoritative") - a name of an authoritative
//! local zone which is an alias for a name outside the local zones is answered
//! WITHOUT the authoritative mark, although everything the reply says (the
//! CNAME record) comes from that zone alone.  Shown in authoritative-only mode
//! (no recursion), where the reply holds nothing but the zone's own record.
//!
//! Put this file at crates/resolved/tests/demo4.rs and run
//!   cargo test --offline -p resolved --test demo4 -- --nocapture
#![allow(clippy::all)]

use dns_resolver::cache::SharedCache;
use dns_resolver::resolve;
use dns_resolver::util::types::*;
use dns_types::protocol::types::*;
use dns_types::zones::types::*;

fn question(name: &str) -> Question {
    Question {
        name: DomainName::from_dotted_string(name).unwrap(),
        qtype: QueryType::Record(RecordType::A),
        qclass: QueryClass::Record(RecordClass::IN),
    }
}

#[tokio::test]
async fn an_alias_in_an_authoritative_zone_is_answered_authoritatively() {
    let mut zones = Zones::new();
    zones.insert(
        Zone::deserialise(
            "$ORIGIN corp.example.\n\
             @    IN SOA mname rname 1 30 30 30 30\n\
             in   300 IN CNAME host\n\
             host 300 IN A 1.2.3.4\n\
             out  300 IN CNAME www.elsewhere.test.\n",
        )
        .unwrap(),
    );
    let cache = SharedCache::new();

    // control: alias within the zone
    let (_, r) = resolve(false, ProtocolMode::OnlyV4, 53, None, &zones, &cache, &question("in.corp.example.")).await;
    println!("in.corp.example.  -> {r:?}\n");
    assert!(matches!(r, Ok(ResolvedRecord::Authoritative { .. })));

    // alias leaving the zone: the reply is the zone's CNAME record and nothing else
    let (_, r) = resolve(false, ProtocolMode::OnlyV4, 53, None, &zones, &cache, &question("out.corp.example.")).await;
    println!("out.corp.example. -> {r:?}\n");
    assert!(
        matches!(r, Ok(ResolvedRecord::Authoritative { .. })),
        "corp.example. is authoritative for out.corp.example.: the reply must be marked authoritative, got {r:?}"
    );
}
