//! C07 - around the moment a cached RRset expires, the resolver answers with
//! only PART of the RRset the authoritative servers hold.
//!
//! Every record gets its own expiry instant when it is cached
//! (`PartitionedCache::upsert` calls `Instant::now()` per record) and
//! `Cache::get` drops each record on its own once less than a whole second of
//! its life is left.  For the few microseconds in which the first records of
//! the RRset are below that mark and the last ones are not, a question is
//! answered from the cache with a subset of the RRset - no error, no upstream
//! query.  This test asks the same question in a tight loop across several
//! such moments (TTL 2s, so one about every second).
//!
//! Put this file at crates/resolved/tests/demo3.rs and run
//!   cargo test --offline -p resolved --test demo3 -- --nocapture
#![allow(clippy::all)]
#![allow(dead_code)]

use std::net::{IpAddr, Ipv4Addr, SocketAddr};
use std::sync::Arc;

use tokio::io::{AsyncReadExt, AsyncWriteExt};
use tokio::net::{TcpListener, UdpSocket};

use dns_resolver::cache::SharedCache;
use dns_resolver::resolve;
use dns_resolver::util::types::*;
use dns_types::protocol::types::*;
use dns_types::zones::types::*;

fn dn(s: &str) -> DomainName {
    DomainName::from_dotted_string(s).unwrap()
}
fn rr(name: &str, data: RecordTypeWithData) -> ResourceRecord {
    ResourceRecord { name: dn(name), rtype_with_data: data, rclass: RecordClass::IN, ttl: TTL }
}
fn a(name: &str, ip: [u8; 4]) -> ResourceRecord {
    rr(name, RecordTypeWithData::A { address: Ipv4Addr::from(ip) })
}
fn ns(name: &str, target: &str) -> ResourceRecord {
    rr(name, RecordTypeWithData::NS { nsdname: dn(target) })
}
fn cname(name: &str, target: &str) -> ResourceRecord {
    rr(name, RecordTypeWithData::CNAME { cname: dn(target) })
}
fn soa(apex: &str) -> ResourceRecord {
    rr(
        apex,
        RecordTypeWithData::SOA {
            mname: dn("mname."),
            rname: dn("rname."),
            serial: 1,
            refresh: 2,
            retry: 3,
            expire: 4,
            minimum: TTL,
        },
    )
}

/// One authoritative zone held by a fake nameserver: all its records,
/// including the NS records and glue of the delegations it makes.
#[derive(Clone)]
struct AZone {
    apex: DomainName,
    rrs: Vec<ResourceRecord>,
}

/// The textbook authoritative-server algorithm (RFC 1034 4.3.2) over one zone.
fn respond(zone: &AZone, query: &Message) -> Message {
    let mut resp = query.make_response();
    resp.header.recursion_available = false;
    let q = &query.questions[0];
    let qname = &q.name;
    let soa_rr = zone.rrs.iter().find(|r| r.rtype_with_data.rtype() == RecordType::SOA).cloned().unwrap();

    let nl = qname.labels.len();
    for take in (zone.apex.labels.len() + 1)..=nl {
        let anc = DomainName::from_labels(qname.labels[nl - take..].to_vec()).unwrap();
        let nss: Vec<ResourceRecord> = zone
            .rrs
            .iter()
            .filter(|r| r.name == anc && r.rtype_with_data.rtype() == RecordType::NS)
            .cloned()
            .collect();
        if !nss.is_empty() {
            for n in &nss {
                if let RecordTypeWithData::NS { nsdname } = &n.rtype_with_data {
                    resp.additional.extend(zone.rrs.iter().filter(|r| &r.name == nsdname && r.rtype_with_data.rtype() == RecordType::A).cloned());
                }
            }
            resp.authority = nss;
            return resp;
        }
    }

    resp.header.is_authoritative = true;
    let here: Vec<&ResourceRecord> = zone.rrs.iter().filter(|r| &r.name == qname).collect();
    if here.is_empty() {
        resp.header.rcode = Rcode::NameError;
        resp.authority = vec![soa_rr];
        return resp;
    }
    let matching: Vec<ResourceRecord> = here.iter().filter(|r| r.rtype_with_data.matches(q.qtype)).map(|r| (*r).clone()).collect();
    if matching.is_empty() {
        if let Some(c) = here.iter().find(|r| r.rtype_with_data.rtype() == RecordType::CNAME) {
            resp.answers = vec![(*c).clone()];
        } else {
            resp.authority = vec![soa_rr];
        }
    } else {
        resp.answers = matching;
    }
    resp
}

async fn spawn_server(ip: [u8; 4], port: u16, zone: AZone) {
    let addr = SocketAddr::new(IpAddr::V4(Ipv4Addr::from(ip)), port);
    let udp = UdpSocket::bind(addr).await.unwrap();
    let tcp = TcpListener::bind(addr).await.unwrap();
    let zone = Arc::new(zone);
    let z = zone.clone();
    tokio::spawn(async move {
        let mut buf = vec![0u8; 4096];
        loop {
            let Ok((n, peer)) = udp.recv_from(&mut buf).await else { continue };
            let Ok(query) = Message::from_octets(&buf[..n]) else { continue };
            let octets = respond(&z, &query).to_octets().unwrap();
            let _ = udp.send_to(&octets, peer).await;
        }
    });
    tokio::spawn(async move {
        loop {
            let Ok((mut stream, _)) = tcp.accept().await else { continue };
            let z = zone.clone();
            tokio::spawn(async move {
                let Ok(len) = stream.read_u16().await else { return };
                let mut buf = vec![0u8; len as usize];
                if stream.read_exact(&mut buf).await.is_err() {
                    return;
                }
                let Ok(query) = Message::from_octets(&buf) else { return };
                let octets = respond(&z, &query).to_octets().unwrap();
                let _ = stream.write_all(&(octets.len() as u16).to_be_bytes()).await;
                let _ = stream.write_all(&octets).await;
            });
        }
    });
}


const TTL: u32 = 2;
const RRSET_SIZE: usize = 8;

#[tokio::test(flavor = "multi_thread", worker_threads = 2)]
async fn a_cached_rrset_is_returned_whole_or_not_at_all() {
    let port = 23000 + (std::process::id() % 20000) as u16;

    spawn_server(
        [127, 0, 0, 2],
        port,
        AZone {
            apex: dn("."),
            rrs: vec![
                soa("."),
                ns(".", "a.root-servers.net."),
                a("a.root-servers.net.", [127, 0, 0, 2]),
                ns("example.", "ns1.example."),
                a("ns1.example.", [127, 0, 0, 3]),
            ],
        },
    )
    .await;
    let mut example = vec![soa("example."), ns("example.", "ns1.example."), a("ns1.example.", [127, 0, 0, 3])];
    for i in 0..RRSET_SIZE {
        example.push(a("www.example.", [10, 0, 0, i as u8 + 1]));
    }
    spawn_server([127, 0, 0, 3], port, AZone { apex: dn("example."), rrs: example }).await;

    let mut zones = Zones::new();
    zones.insert(Zone::deserialise(". 3600 IN NS a.root-servers.net.\na.root-servers.net. 3600 IN A 127.0.0.2\n").unwrap());
    let cache = SharedCache::new();

    let question = Question {
        name: dn("www.example."),
        qtype: QueryType::Record(RecordType::A),
        qclass: QueryClass::Record(RecordClass::IN),
    };

    let start = std::time::Instant::now();
    let mut asked = 0u64;
    while start.elapsed() < std::time::Duration::from_secs(20) {
        let (metrics, result) = resolve(true, ProtocolMode::OnlyV4, port, None, &zones, &cache, &question).await;
        asked += 1;
        match result {
            Ok(ResolvedRecord::NonAuthoritative { rrs, .. }) => {
                assert_eq!(
                    RRSET_SIZE,
                    rrs.len(),
                    "question {asked}, {:?} after the start, was answered (nameserver queries made: {}) with part of the RRset: {rrs:#?}",
                    start.elapsed(),
                    metrics.nameserver_hits + metrics.nameserver_misses,
                );
            }
            other => panic!("unexpected result {other:?}"),
        }
    }
    println!("{asked} questions, every answer had all {RRSET_SIZE} records");
}
