//! C07 - a CNAME question is answered with records that do not answer it
//! when the alias points at a name local data speaks for.
//!
//! Put this file at crates/resolved/tests/demo1.rs and run
//!   cargo test --offline -p resolved --test demo1 -- --nocapture
#![allow(clippy::all)]

use std::net::{IpAddr, Ipv4Addr, SocketAddr};
use std::sync::Arc;

use tokio::io::{AsyncReadExt, AsyncWriteExt};
use tokio::net::{TcpListener, UdpSocket};

use dns_resolver::cache::SharedCache;
use dns_resolver::resolve;
use dns_resolver::util::types::*;
use dns_types::protocol::types::*;
use dns_types::zones::types::*;

fn dn(s: &str) -> DomainName {
    DomainName::from_dotted_string(s).unwrap()
}
fn rr(name: &str, data: RecordTypeWithData) -> ResourceRecord {
    ResourceRecord { name: dn(name), rtype_with_data: data, rclass: RecordClass::IN, ttl: 300 }
}
fn a(name: &str, ip: [u8; 4]) -> ResourceRecord {
    rr(name, RecordTypeWithData::A { address: Ipv4Addr::from(ip) })
}
fn ns(name: &str, target: &str) -> ResourceRecord {
    rr(name, RecordTypeWithData::NS { nsdname: dn(target) })
}
fn cname(name: &str, target: &str) -> ResourceRecord {
    rr(name, RecordTypeWithData::CNAME { cname: dn(target) })
}
fn soa(apex: &str) -> ResourceRecord {
    rr(
        apex,
        RecordTypeWithData::SOA {
            mname: dn("mname."),
            rname: dn("rname."),
            serial: 1,
            refresh: 2,
            retry: 3,
            expire: 4,
            minimum: 300,
        },
    )
}

/// One authoritative zone held by a fake nameserver: all its records,
/// including the NS records and glue of the delegations it makes.
#[derive(Clone)]
struct AZone {
    apex: DomainName,
    rrs: Vec<ResourceRecord>,
}

/// The textbook authoritative-server algorithm (RFC 1034 4.3.2) over one zone.
fn respond(zone: &AZone, query: &Message) -> Message {
    let mut resp = query.make_response();
    resp.header.recursion_available = false;
    let q = &query.questions[0];
    let qname = &q.name;
    let soa_rr = zone.rrs.iter().find(|r| r.rtype_with_data.rtype() == RecordType::SOA).cloned().unwrap();

    let nl = qname.labels.len();
    for take in (zone.apex.labels.len() + 1)..=nl {
        let anc = DomainName::from_labels(qname.labels[nl - take..].to_vec()).unwrap();
        let nss: Vec<ResourceRecord> = zone
            .rrs
            .iter()
            .filter(|r| r.name == anc && r.rtype_with_data.rtype() == RecordType::NS)
            .cloned()
            .collect();
        if !nss.is_empty() {
            for n in &nss {
                if let RecordTypeWithData::NS { nsdname } = &n.rtype_with_data {
                    resp.additional.extend(zone.rrs.iter().filter(|r| &r.name == nsdname && r.rtype_with_data.rtype() == RecordType::A).cloned());
                }
            }
            resp.authority = nss;
            return resp;
        }
    }

    resp.header.is_authoritative = true;
    let here: Vec<&ResourceRecord> = zone.rrs.iter().filter(|r| &r.name == qname).collect();
    if here.is_empty() {
        resp.header.rcode = Rcode::NameError;
        resp.authority = vec![soa_rr];
        return resp;
    }
    let matching: Vec<ResourceRecord> = here.iter().filter(|r| r.rtype_with_data.matches(q.qtype)).map(|r| (*r).clone()).collect();
    if matching.is_empty() {
        if let Some(c) = here.iter().find(|r| r.rtype_with_data.rtype() == RecordType::CNAME) {
            resp.answers = vec![(*c).clone()];
        } else {
            resp.authority = vec![soa_rr];
        }
    } else {
        resp.answers = matching;
    }
    resp
}

async fn spawn_server(ip: [u8; 4], port: u16, zone: AZone) {
    let addr = SocketAddr::new(IpAddr::V4(Ipv4Addr::from(ip)), port);
    let udp = UdpSocket::bind(addr).await.unwrap();
    let tcp = TcpListener::bind(addr).await.unwrap();
    let zone = Arc::new(zone);
    let z = zone.clone();
    tokio::spawn(async move {
        let mut buf = vec![0u8; 4096];
        loop {
            let Ok((n, peer)) = udp.recv_from(&mut buf).await else { continue };
            let Ok(query) = Message::from_octets(&buf[..n]) else { continue };
            let octets = respond(&z, &query).to_octets().unwrap();
            let _ = udp.send_to(&octets, peer).await;
        }
    });
    tokio::spawn(async move {
        loop {
            let Ok((mut stream, _)) = tcp.accept().await else { continue };
            let z = zone.clone();
            tokio::spawn(async move {
                let Ok(len) = stream.read_u16().await else { return };
                let mut buf = vec![0u8; len as usize];
                if stream.read_exact(&mut buf).await.is_err() {
                    return;
                }
                let Ok(query) = Message::from_octets(&buf) else { return };
                let octets = respond(&z, &query).to_octets().unwrap();
                let _ = stream.write_all(&(octets.len() as u16).to_be_bytes()).await;
                let _ = stream.write_all(&octets).await;
            });
        }
    });
}

#[tokio::test(flavor = "multi_thread", worker_threads = 2)]
async fn cname_question_gets_exactly_the_cname_record() {
    let port = 21000 + (std::process::id() % 20000) as u16;

    // the hierarchy: "." (127.0.0.2) delegates "example." to ns1.example. (127.0.0.3)
    spawn_server(
        [127, 0, 0, 2],
        port,
        AZone {
            apex: dn("."),
            rrs: vec![
                soa("."),
                ns(".", "a.root-servers.net."),
                a("a.root-servers.net.", [127, 0, 0, 2]),
                ns("example.", "ns1.example."),
                a("ns1.example.", [127, 0, 0, 3]),
            ],
        },
    )
    .await;
    spawn_server(
        [127, 0, 0, 3],
        port,
        AZone {
            apex: dn("example."),
            rrs: vec![
                soa("example."),
                ns("example.", "ns1.example."),
                a("ns1.example.", [127, 0, 0, 3]),
                // the record asked for: an alias whose target lives in a zone
                // this resolver is configured with
                cname("toalias.example.", "t.corp.test."),
            ],
        },
    )
    .await;

    // local configuration: root hints + an authoritative zone
    let mut zones = Zones::new();
    zones.insert(Zone::deserialise(". 3600 IN NS a.root-servers.net.\na.root-servers.net. 3600 IN A 127.0.0.2\n").unwrap());
    zones.insert(
        Zone::deserialise("$ORIGIN corp.test.\n@ IN SOA mname rname 1 30 30 30 30\nt 300 IN CNAME u\nu 300 IN A 1.2.3.4\n").unwrap(),
    );
    let cache = SharedCache::new();

    let question = Question {
        name: dn("toalias.example."),
        qtype: QueryType::Record(RecordType::CNAME),
        qclass: QueryClass::Record(RecordClass::IN),
    };
    let expected = vec![cname("toalias.example.", "t.corp.test.")];

    let (_, first) = resolve(true, ProtocolMode::OnlyV4, port, None, &zones, &cache, &question).await;
    println!("first answer (from the nameservers): {first:#?}");
    let (_, second) = resolve(true, ProtocolMode::OnlyV4, port, None, &zones, &cache, &question).await;
    println!("second answer (from the cache): {second:#?}");

    // the second answer is right ...
    match second {
        Ok(ResolvedRecord::NonAuthoritative { rrs, soa_rr }) => {
            let rrs: Vec<_> = rrs.into_iter().map(|mut r| { r.ttl = 300; r }).collect();
            assert_eq!(expected, rrs);
            assert_eq!(None, soa_rr);
        }
        other => panic!("unexpected second answer {other:?}"),
    }
    // ... the first is not: it carries `t.corp.test. CNAME u.corp.test.`,
    // which is not a record of the question name, and the SOA of corp.test.
    // as if this were a negative answer
    match first {
        Ok(ResolvedRecord::NonAuthoritative { rrs, soa_rr }) => {
            assert_eq!(
                expected, rrs,
                "the authoritative servers hold exactly one CNAME record for toalias.example."
            );
            assert_eq!(None, soa_rr, "a positive answer does not carry an SOA");
        }
        other => panic!("unexpected first answer {other:?}"),
    }
}
