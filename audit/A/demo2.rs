//! C01 + C10 - forwarding mode trusts the ORDER of the upstream's answer
//! section.  An upstream that lists the address records before the CNAME
//! records (the order of RRs in a section carries no meaning; public resolvers
//! have shipped exactly this order) gets
//!
//!  (a) its own record for a name the hosts file holds into the reply, next to
//!      the local one, and the first link of the alias chain dropped (C01, C10);
//!  (b) without any local data, its unordered answer passed on as is (C10).
//!
//! Put this file at crates/resolved/tests/demo2.rs and run
//!   cargo test --offline -p resolved --test demo2 -- --nocapture
#![allow(clippy::all)]

use std::net::{IpAddr, Ipv4Addr, SocketAddr};
use std::sync::atomic::{AtomicUsize, Ordering};
use std::sync::Arc;

use tokio::net::UdpSocket;

use dns_resolver::cache::SharedCache;
use dns_resolver::resolve;
use dns_resolver::util::types::*;
use dns_types::protocol::types::*;
use dns_types::zones::types::*;

fn dn(s: &str) -> DomainName {
    DomainName::from_dotted_string(s).unwrap()
}
fn rr(name: &str, data: RecordTypeWithData) -> ResourceRecord {
    ResourceRecord { name: dn(name), rtype_with_data: data, rclass: RecordClass::IN, ttl: 300 }
}
fn a(name: &str, ip: [u8; 4]) -> ResourceRecord {
    rr(name, RecordTypeWithData::A { address: Ipv4Addr::from(ip) })
}
fn cname(name: &str, target: &str) -> ResourceRecord {
    rr(name, RecordTypeWithData::CNAME { cname: dn(target) })
}

/// A recursive upstream which knows
///   www.example.com. CNAME mid.example.com. CNAME target.example.net. A 6.6.6.6
/// and answers with the address first and the aliases after it.
async fn spawn_upstream(addr: SocketAddr, queries: Arc<AtomicUsize>) {
    let udp = UdpSocket::bind(addr).await.unwrap();
    tokio::spawn(async move {
        let mut buf = vec![0u8; 4096];
        loop {
            let Ok((n, peer)) = udp.recv_from(&mut buf).await else { continue };
            let Ok(query) = Message::from_octets(&buf[..n]) else { continue };
            queries.fetch_add(1, Ordering::SeqCst);
            let mut resp = query.make_response();
            if query.questions[0].name == dn("www.example.com.") {
                resp.answers = vec![
                    a("target.example.net.", [6, 6, 6, 6]),
                    cname("mid.example.com.", "target.example.net."),
                    cname("www.example.com.", "mid.example.com."),
                ];
            } else {
                resp.header.rcode = Rcode::ServerFailure;
            }
            let _ = udp.send_to(&resp.to_octets().unwrap(), peer).await;
        }
    });
}

fn question() -> Question {
    Question {
        name: dn("www.example.com."),
        qtype: QueryType::Record(RecordType::A),
        qclass: QueryClass::Record(RecordClass::IN),
    }
}

/// C10: CNAMEs in chain order starting at the question name, then only
/// records of the asked type owned by the final target.
fn assert_chain(question: &Question, rrs: &[ResourceRecord]) {
    let mut name = question.name.clone();
    let mut i = 0;
    while i < rrs.len() {
        if let RecordTypeWithData::CNAME { cname } = &rrs[i].rtype_with_data {
            assert_eq!(name, rrs[i].name, "record {i} is not owned by the previous target: {rrs:#?}");
            name = cname.clone();
            i += 1;
        } else {
            break;
        }
    }
    for rr in &rrs[i..] {
        assert!(
            rr.name == name && rr.rtype_with_data.matches(question.qtype),
            "after the aliases only records of the asked type at {name} may follow: {rrs:#?}"
        );
    }
}

#[tokio::test(flavor = "multi_thread", worker_threads = 2)]
async fn a_hosts_file_wins_over_the_upstream() {
    let port = 22000 + (std::process::id() % 20000) as u16;
    let addr = SocketAddr::new(IpAddr::V4(Ipv4Addr::LOCALHOST), port);
    spawn_upstream(addr, Arc::new(AtomicUsize::new(0))).await;

    // what a hosts file line "1.1.1.1 target.example.net" becomes
    let mut zones = Zones::new();
    zones.insert_merge(Zone::deserialise("target.example.net. 300 IN A 1.1.1.1\n").unwrap());
    let cache = SharedCache::new();

    let (_, result) = resolve(true, ProtocolMode::OnlyV4, 53, Some(addr), &zones, &cache, &question()).await;
    println!("{result:#?}");
    let rrs = result.unwrap().rrs();

    // C01: exactly the local records for target.example.net. A
    let at_target: Vec<_> = rrs.iter().filter(|rr| rr.name == dn("target.example.net.")).cloned().collect();
    assert_eq!(
        vec![a("target.example.net.", [1, 1, 1, 1])],
        at_target,
        "the hosts file holds target.example.net. A: upstream records of that name and type must not be added"
    );
    // C10
    assert_chain(&question(), &rrs);
}

#[tokio::test(flavor = "multi_thread", worker_threads = 2)]
async fn the_chain_is_in_order_whatever_order_the_upstream_uses() {
    let port = 22001 + (std::process::id() % 20000) as u16;
    let addr = SocketAddr::new(IpAddr::V4(Ipv4Addr::LOCALHOST), port);
    spawn_upstream(addr, Arc::new(AtomicUsize::new(0))).await;

    let zones = Zones::new();
    let cache = SharedCache::new();
    let (_, result) = resolve(true, ProtocolMode::OnlyV4, 53, Some(addr), &zones, &cache, &question()).await;
    println!("{result:#?}");
    assert_chain(&question(), &result.unwrap().rrs());
}
