import json,sys
for f in sys.argv[1:]:
    d=json.load(open(f)); print("=====",f, d['mode'], 'decisions=',d['decisions'])
    p=d['plan']
    if 'universe' in p:
        for z in p['universe']['zones']:
            print(' zone',z['apex'],'ns',z['ns'], 'nsttl', z['ns_ttl'])
            for r in z['records']: print('     ',r.get('owner'), '*' if r.get('wild') else '', r['ttl'], r['data'])
        for z in p.get('local',[]):
            print(' LOCAL',z['apex'],'soa',z['soa'])
            for r in z['records']: print('     ',r.get('owner'), '*' if r.get('wild') else '', r['ttl'], r['data'])
        print(' preload', p.get('cache_preload'))
        k=p['knobs']
        print(' knobs', {x:v for x,v in k.items() if x not in('faults',)}, 'hints_auto', p.get('hints_auto'))
        print(' faults', k['faults'])
        for q in p['questions']: print(' Q',q)
    else:
        print(json.dumps(p)[:3000])
    print(json.dumps(d['violation'],indent=1)[:4000])
