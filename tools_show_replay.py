import json,sys
for f in sys.argv[1:]:
    d=json.load(open(f)); print("=====",f, d['mode'], 'decisions=',d['decisions'])
    p=d['plan']
    if 'universe' in p:
        for z in p['universe']['zones']:
            print(' zone',z['apex'],'ns',z['ns'], 'nsttl', z['ns_ttl'])
            for r in z['records']: print('     ',r.get('owner'), '*' if r.get('wild') else '', r['ttl'], r['data'])
        for z in p.get('local',[]):
            print(' LOCAL',z['apex'],'soa',z['soa'])
            for r in z['records']: print('     ',r.get('owner'), '*' if r.get('wild') else '', r['ttl'], r['data'])
        print(' preload', p.get('cache_preload'))
        k=p['knobs']
        print(' knobs', {x:v for x,v in k.items() if x not in('faults',)}, 'hints_auto', p.get('hints_auto'))
        print(' faults', k['faults'])
        for q in p.get('questions',[]): print(' Q',q)
        # server plans (C09, C19)
        for f in p.get('files',[]): print(' FILE',f['path'], len(f['content']),'bytes')
        if 'args' in p: print(' args',p['args'])
        for s in p.get('operator',[]):
            a=s['action']; kind=a if isinstance(a,str) else list(a.keys())[0]
            det='' if isinstance(a,str) else {k:(v if k!='content' else '%d bytes'%len(v)) for k,v in a[kind].items()}
            print('  OP @%dms'%s['at_ms'], kind, det)
        for m in p.get('messages',[]): print('  MSG @%dms'%m['at_ms'], m['proto'], m['what'], 'prefix',m.get('prefix'),'cut',m.get('cut_at'),'piece',m.get('piece'),'after',m.get('after'),'listen',m.get('listen_ms'))
    else:
        print(json.dumps(p)[:3000])
    print(json.dumps(d['violation'],indent=1)[:4000])
