//! Shuttle harness: the cache operations of C05/C15 issued from several
//! threads under shuttle's seeded schedulers (simseam's `shuttle` feature turns
//! `SharedCache`'s mutex into `shuttle::sync::Mutex`), with a clock thread that
//! advances the virtual time between other threads' operations.  Every
//! execution's history must be linearizable against the sequential `Cache`
//! (whose own correctness simcache judges), and the record count must equal the
//! number of distinct entries held.
//!
//! This is its own package and binary: with the feature on, `SharedCache` only
//! works inside a shuttle execution.

#[cfg(not(resolved_verif))]
compile_error!("the shuttle harness must be built with --cfg resolved_verif");

use std::collections::BTreeMap;
use std::sync::atomic::{AtomicU64, Ordering};
use std::sync::Arc as StdArc;
use std::sync::Mutex as StdMutex;
use std::time::Duration;

use dns_resolver::cache::{Cache, SharedCache};
use dns_types::protocol::types::*;
use shuttle::rand::Rng;
use shuttle::scheduler::{PctScheduler, RandomScheduler};
use shuttle::{Config, FailurePersistence, Runner};

#[derive(Clone, Debug)]
enum Op {
    Insert { name: u8, rtype: u8, val: u8, ttl: u32 },
    InsertAll { name: u8, vals: Vec<(u8, u8)>, ttl: u32 },
    Get { name: u8, q: u8 },
    Prune,
    Advance { ms: u64 },
}

#[derive(Clone, Debug, PartialEq, Eq)]
enum Outcome {
    Unit,
    Records(Vec<(String, u32)>),
    Pruned(bool, usize, usize, usize),
}

#[derive(Clone, Debug)]
struct Event {
    thread: usize,
    op: Op,
    outcome: Outcome,
    inv: u64,
    ret: u64,
}

fn name_of(i: u8) -> DomainName {
    DomainName::from_dotted_string(&format!("n{i}.cache.test.")).unwrap()
}

fn data_of(name: u8, rtype: u8, val: u8) -> RecordTypeWithData {
    match rtype {
        0 => RecordTypeWithData::A {
            address: std::net::Ipv4Addr::new(10, name, 0, val),
        },
        1 => RecordTypeWithData::TXT {
            octets: bytes::Bytes::copy_from_slice(format!("v{val}").as_bytes()),
        },
        _ => RecordTypeWithData::NS {
            nsdname: DomainName::from_dotted_string(&format!("ns{val}.n{name}.cache.test.")).unwrap(),
        },
    }
}

fn rr_of(name: u8, rtype: u8, val: u8, ttl: u32) -> ResourceRecord {
    ResourceRecord {
        name: name_of(name),
        rtype_with_data: data_of(name, rtype, val),
        rclass: RecordClass::IN,
        ttl,
    }
}

fn qtype_of(q: u8) -> QueryType {
    match q {
        0 => QueryType::Record(RecordType::A),
        1 => QueryType::Record(RecordType::TXT),
        2 => QueryType::Record(RecordType::NS),
        _ => QueryType::Wildcard,
    }
}

fn canon(rrs: &[ResourceRecord]) -> Vec<(String, u32)> {
    let mut v: Vec<(String, u32)> = rrs
        .iter()
        .map(|r| (format!("{:?}", r.rtype_with_data), r.ttl))
        .collect();
    v.sort();
    v
}

/// Apply an operation to the sequential model at model time `t`.
fn apply_model(model: &mut Cache, t: &mut u64, op: &Op) -> Outcome {
    simseam::clock::set_manual(*t);
    match op {
        Op::Insert { name, rtype, val, ttl } => {
            if *ttl > 0 {
                model.insert(&rr_of(*name, *rtype, *val, *ttl));
            }
            Outcome::Unit
        }
        Op::InsertAll { name, vals, ttl } => {
            for (rtype, val) in vals {
                if *ttl > 0 {
                    model.insert(&rr_of(*name, *rtype, *val, *ttl));
                }
            }
            Outcome::Unit
        }
        Op::Get { name, q } => Outcome::Records(canon(&model.get(&name_of(*name), qtype_of(*q)))),
        Op::Prune => {
            let (a, b, c, d) = model.prune();
            Outcome::Pruned(a, b, c, d)
        }
        Op::Advance { ms } => {
            *t += ms * 1_000_000;
            Outcome::Unit
        }
    }
}

/// Does what the shared cache did agree with what the sequential model does at this
/// point?  Exactly, except that the shared cache may have dropped records that had
/// already expired before this prune got to them (when expired records physically
/// vanish is not specified): then it reports fewer expired ones - and, counting
/// them no longer, may not see itself over size - while the records remaining and
/// the live records evicted must be the same.
fn agrees(model: &Outcome, real: &Outcome) -> bool {
    match (model, real) {
        (Outcome::Pruned(mo, ms, me, mv), Outcome::Pruned(ro, rs, re, rv)) => {
            ms == rs && mv == rv && re <= me && (mo == ro || re < me)
        }
        _ => model == real,
    }
}

/// WGL-style search for a linearization of `events`.
fn linearizable(events: &[Event], desired_size: usize) -> bool {
    fn go(events: &[Event], done: &mut Vec<bool>, model: &Cache, t: u64, left: usize, budget: &mut u64) -> bool {
        if left == 0 {
            return true;
        }
        if *budget == 0 {
            // give up searching: treat as inconclusive (never a false alarm)
            return true;
        }
        *budget -= 1;
        // an operation may go next if no other pending operation returned before it was invoked
        let min_ret = events
            .iter()
            .enumerate()
            .filter(|(i, _)| !done[*i])
            .map(|(_, e)| e.ret)
            .min()
            .unwrap();
        for i in 0..events.len() {
            if done[i] || events[i].inv > min_ret {
                continue;
            }
            let mut m = model.clone();
            let mut t2 = t;
            // the model is the real sequential Cache and reads the virtual clock:
            // those reads are the search's, not a spin of the code under test
            simseam::clock::forgive_reads();
            let out = apply_model(&mut m, &mut t2, &events[i].op);
            if agrees(&out, &events[i].outcome) {
                done[i] = true;
                if go(events, done, &m, t2, left - 1, budget) {
                    return true;
                }
                done[i] = false;
            }
        }
        false
    }
    let saved = simseam::clock::elapsed_nanos();
    let model = Cache::with_desired_size(desired_size);
    let mut done = vec![false; events.len()];
    let mut budget = 2_000_000u64;
    let ok = go(events, &mut done, &model, 0, events.len(), &mut budget);
    simseam::clock::set_manual(saved);
    ok
}

#[derive(Default)]
struct Stats {
    executions: u64,
    ops: u64,
    threads: BTreeMap<usize, u64>,
    overlapping_histories: u64,
    distinct_histories: std::collections::BTreeSet<u64>,
    /// Order-independent fingerprint of every execution's history.
    fingerprint: u64,
    prunes_that_removed: u64,
    sample: Option<String>,
}

fn hash_str(s: &str) -> u64 {
    simseam::hash_bytes(0, s.as_bytes())
}

fn scenario(with_prune: bool, max_threads: usize, stats: &StdArc<StdMutex<Stats>>) {
    simseam::clock::use_manual();
    let mut rng = shuttle::rand::thread_rng();
    let n_threads = rng.gen_range(2..=max_threads);
    let desired_size: usize = rng.gen_range(1..6);
    let names: u8 = rng.gen_range(1..=3);
    let cache = SharedCache::with_desired_size(desired_size);
    let seq = StdArc::new(AtomicU64::new(0));
    let history: StdArc<StdMutex<Vec<Event>>> = StdArc::new(StdMutex::new(Vec::new()));
    // per-thread scripts, drawn from shuttle's RNG so that they are part of the schedule
    let mut scripts: Vec<Vec<Op>> = Vec::new();
    let ops_per_thread = if n_threads <= 3 { 3 } else { 2 };
    for _ in 0..n_threads {
        let mut ops = Vec::new();
        for _ in 0..rng.gen_range(1..=ops_per_thread) {
            let name = rng.gen_range(0..names);
            let op = match rng.gen_range(0..10) {
                0..=3 => Op::Insert {
                    name,
                    rtype: rng.gen_range(0..3),
                    val: rng.gen_range(0..2),
                    ttl: *[0u32, 1, 1, 2, 300].get(rng.gen_range(0..5)).unwrap(),
                },
                4 => Op::InsertAll {
                    name,
                    vals: vec![(rng.gen_range(0..3), 0), (rng.gen_range(0..3), 1)],
                    ttl: *[1u32, 2, 300].get(rng.gen_range(0..3)).unwrap(),
                },
                5..=7 => Op::Get {
                    name,
                    q: rng.gen_range(0..4),
                },
                _ => {
                    if with_prune {
                        Op::Prune
                    } else {
                        Op::Get { name, q: 3 }
                    }
                }
            };
            ops.push(op);
        }
        scripts.push(ops);
    }
    // the clock thread
    let mut ticks = Vec::new();
    for _ in 0..rng.gen_range(0..=3) {
        ticks.push(Op::Advance {
            ms: *[1u64, 500, 999, 1000, 1001, 2000].get(rng.gen_range(0..6)).unwrap(),
        });
    }
    scripts.push(ticks);

    let mut handles = Vec::new();
    for (ti, ops) in scripts.into_iter().enumerate() {
        let cache = cache.clone();
        let seq = seq.clone();
        let history = history.clone();
        handles.push(shuttle::thread::spawn(move || {
            for op in ops {
                let inv = seq.fetch_add(1, Ordering::SeqCst);
                let outcome = match &op {
                    Op::Insert { name, rtype, val, ttl } => {
                        cache.insert(&rr_of(*name, *rtype, *val, *ttl));
                        Outcome::Unit
                    }
                    Op::InsertAll { name, vals, ttl } => {
                        let rrs: Vec<ResourceRecord> =
                            vals.iter().map(|(t, v)| rr_of(*name, *t, *v, *ttl)).collect();
                        cache.insert_all(&rrs);
                        Outcome::Unit
                    }
                    Op::Get { name, q } => Outcome::Records(canon(&cache.get(&name_of(*name), qtype_of(*q)))),
                    Op::Prune => {
                        let (a, b, c, d) = cache.prune();
                        Outcome::Pruned(a, b, c, d)
                    }
                    Op::Advance { ms } => {
                        simseam::clock::advance(Duration::from_millis(*ms));
                        Outcome::Unit
                    }
                };
                let ret = seq.fetch_add(1, Ordering::SeqCst);
                history.lock().unwrap().push(Event {
                    thread: ti,
                    op,
                    outcome,
                    inv,
                    ret,
                });
                // a scheduling point that is not a yield (PCT degenerates on yields)
                shuttle::thread::sleep(Duration::from_millis(0));
            }
        }));
    }
    for h in handles {
        h.join().unwrap();
    }
    let events = history.lock().unwrap().clone();
    // the record count equals the number of distinct entries held
    let snap = cache.verif_snapshot();
    let held: usize = snap.partitions.iter().map(|p| p.4.len()).sum();
    let sizes: usize = snap.partitions.iter().map(|p| p.3).sum();
    assert!(
        snap.current_size == held && sizes == held,
        "COUNT: record count {} / partition sizes {} / distinct entries held {}\nhistory: {events:#?}",
        snap.current_size,
        sizes,
        held
    );
    assert!(
        linearizable(&events, desired_size),
        "NONLINEARIZABLE history (desired size {desired_size}):\n{events:#?}"
    );
    let overlapping = events.iter().any(|a| {
        events
            .iter()
            .any(|b| a.thread != b.thread && a.inv < b.ret && b.inv < a.ret && !matches!(a.op, Op::Advance { .. }) && !matches!(b.op, Op::Advance { .. }))
    });
    let mut s = stats.lock().unwrap();
    s.executions += 1;
    s.ops += events.len() as u64;
    {
        let mut order: Vec<&Event> = events.iter().collect();
        order.sort_by_key(|e| e.inv);
        let sig = format!("{:?}", order.iter().map(|e| (e.thread, format!("{:?}", e.op), format!("{:?}", e.outcome), e.inv, e.ret)).collect::<Vec<_>>());
        s.fingerprint = s.fingerprint.wrapping_add(simseam::mix64(hash_str(&sig)));
    }
    *s.threads.entry(n_threads).or_insert(0) += 1;
    if overlapping {
        s.overlapping_histories += 1;
        let mut order: Vec<&Event> = events.iter().collect();
        order.sort_by_key(|e| e.inv);
        let sig = format!("{:?}", order.iter().map(|e| (e.thread, format!("{:?}", e.op), format!("{:?}", e.outcome))).collect::<Vec<_>>());
        if s.distinct_histories.len() < 3_000_000 {
            s.distinct_histories.insert(hash_str(&sig));
        }
        if s.sample.is_none() {
            s.sample = Some(sig.chars().take(900).collect());
        }
    }
    if events.iter().any(|e| matches!(e.outcome, Outcome::Pruned(_, _, x, y) if x > 0 || y > 0)) {
        s.prunes_that_removed += 1;
    }
    simseam::clock::unset();
}

fn main() {
    let args: Vec<String> = std::env::args().collect();
    let cmd = args.get(1).map_or("", String::as_str);
    let id = args.get(2).cloned().unwrap_or_else(|| "C15".into());
    let with_prune = id == "C15";
    let verif_dir = std::env::var("VERIF_DIR").unwrap_or_else(|_| "/verif".into());
    match cmd {
        "replay" => {
            let file = &args[3];
            let stats = StdArc::new(StdMutex::new(Stats::default()));
            let r = std::panic::catch_unwind(|| {
                shuttle::replay_from_file(move || scenario(with_prune, 8, &stats), file);
            });
            if r.is_err() {
                println!("VIOLATION property={id} replay={file}");
                std::process::exit(1);
            }
            println!("replay did not fail");
        }
        "run" => {
            let tier = args.get(3).map_or("quick", String::as_str);
            let seed: u64 = std::env::var("VERIF_SEED").ok().and_then(|s| s.parse().ok()).unwrap_or(1);
            let jobs: u64 = std::env::var("VERIF_JOBS").ok().and_then(|s| s.parse().ok()).unwrap_or(16);
            let per_job: usize = std::env::var("VERIF_SHUTTLE_ITERS")
                .ok()
                .and_then(|s| s.parse().ok())
                .unwrap_or(if tier == "quick" { 6_000 } else { 120_000 });
            let max_threads = if tier == "quick" { 4 } else { 8 };
            let start = std::time::Instant::now();
            let stats = StdArc::new(StdMutex::new(Stats::default()));
            let failures: StdArc<StdMutex<Vec<String>>> = StdArc::new(StdMutex::new(Vec::new()));
            let replay_dir = format!("{verif_dir}/replay/shuttle-{id}");
            let _ = std::fs::create_dir_all(&replay_dir);
            std::panic::set_hook(Box::new(|_| {}));
            let mut joins = Vec::new();
            for j in 0..jobs {
                let stats = stats.clone();
                let failures = failures.clone();
                let replay_dir = replay_dir.clone();
                let id = id.clone();
                joins.push(std::thread::spawn(move || {
                    let job_seed = simseam::mix64(seed ^ simseam::hash_bytes(j, id.as_bytes()));
                    let mut config = Config::new();
                    config.failure_persistence = FailurePersistence::File(Some(replay_dir.clone().into()));
                    config.silence_warnings = true;
                    let st = stats.clone();
                    let r = std::panic::catch_unwind(std::panic::AssertUnwindSafe(|| {
                        if j % 2 == 0 {
                            Runner::new(RandomScheduler::new_from_seed(job_seed, per_job), config)
                                .run(move || scenario(with_prune, max_threads, &st));
                        } else {
                            Runner::new(PctScheduler::new_from_seed(job_seed, 3, per_job), config)
                                .run(move || scenario(with_prune, max_threads, &st));
                        }
                    }));
                    if let Err(p) = r {
                        let msg = p
                            .downcast_ref::<String>()
                            .cloned()
                            .or_else(|| p.downcast_ref::<&str>().map(|s| (*s).to_string()))
                            .unwrap_or_default();
                        failures.lock().unwrap().push(msg);
                    }
                }));
            }
            for j in joins {
                let _ = j.join();
            }
            let s = stats.lock().unwrap();
            let fails = failures.lock().unwrap();
            let wall = start.elapsed().as_secs_f64();
            // merge into the evidence file written by the simcache part
            let ev_path = format!("{verif_dir}/evidence/{id}.json");
            if let Ok(text) = std::fs::read_to_string(&ev_path) {
                if let Ok(mut ev) = serde_json::from_str::<serde_json::Value>(&text) {
                    ev["coverage"]["shuttle"] = serde_json::json!({
                        "executions": s.executions,
                        "operations": s.ops,
                        "executions_by_thread_count": s.threads.iter().map(|(k, v)| (format!("{} threads + clock", k), *v)).collect::<BTreeMap<_, _>>(),
                        "histories_with_overlapping_operations": s.overlapping_histories,
                        "distinct_overlapping_histories": s.distinct_histories.len(),
                        "executions_with_a_prune_that_removed_records": s.prunes_that_removed,
                        "schedulers": ["random (seeded)", "PCT depth 3 (seeded)"],
                        "sample_history": s.sample,
                        "oracle": "record count == distinct entries after every execution; WGL-style search for a linearization against the sequential Cache with clock advances as operations",
                        "wall_s": wall,
                        "violations": fails.len(),
                    });
                    if let Some(v) = ev.get_mut("violations") {
                        *v = serde_json::json!(v.as_u64().unwrap_or(0) + fails.len() as u64);
                    }
                    if let Some(w) = ev.get_mut("wall_s") {
                        *w = serde_json::json!(w.as_f64().unwrap_or(0.0) + wall);
                    }
                    let _ = std::fs::write(&ev_path, serde_json::to_string_pretty(&ev).unwrap());
                }
            }
            println!("{id} shuttle fingerprint {:016x}", s.fingerprint);
            println!(
                "{id} shuttle: {} executions ({} with overlapping operations, {} distinct) in {:.1}s; failures={}",
                s.executions,
                s.overlapping_histories,
                s.distinct_histories.len(),
                wall,
                fails.len()
            );
            if !fails.is_empty() {
                for f in fails.iter().take(2) {
                    let first: String = f.lines().take(40).collect::<Vec<_>>().join("\n");
                    println!("{first}");
                }
                // shuttle wrote the failing schedule into the replay directory
                let mut newest: Option<(std::time::SystemTime, std::path::PathBuf)> = None;
                if let Ok(rd) = std::fs::read_dir(&replay_dir) {
                    for e in rd.flatten() {
                        let p = e.path();
                        if p.file_name().is_some_and(|n| n.to_string_lossy().starts_with("schedule")) {
                            if let Ok(m) = e.metadata().and_then(|m| m.modified()) {
                                if newest.as_ref().is_none_or(|(t, _)| m > *t) {
                                    newest = Some((m, p));
                                }
                            }
                        }
                    }
                }
                let path = newest.map_or_else(|| replay_dir.clone(), |(_, p)| p.to_string_lossy().to_string());
                println!("VIOLATION property={id} replay={path}");
                std::process::exit(1);
            }
            if s.executions == 0 {
                eprintln!("harness error: no shuttle executions ran");
                std::process::exit(2);
            }
        }
        _ => {
            eprintln!("usage: shuttlesim run <C05|C15> quick|thorough | replay <C05|C15> <schedule file>");
            std::process::exit(2);
        }
    }
}
